"""C17: unit-cell lengths/angles and box vectors describe the same cell.
Correspondence: lengths_and_angles_to_box_vectors vs Model/UnitCell.lean (driver `cell`; the trigonometric values numpy
computes are handed to the exact model), and the unitcell setters vs the `cellops` state machine.
Oracle: the property's predicates evaluated on the float64 outputs (lengths, angle naming, orientation, volume, rotated
descriptions, round trips), and cell completeness through slicing/joining/stacking/atom_slice/save+load."""
import os
import warnings
from fractions import Fraction

import numpy as np


def rat(x):
    f = Fraction(float(x))
    return "%d/%d" % (f.numerator, f.denominator) if f.denominator != 1 else str(f.numerator)


def valid(al, be, ga):
    ca, cb, cg = np.cos(np.radians([al, be, ga]))
    return 1 - ca * ca - cb * cb - cg * cg + 2 * ca * cb * cg > 1e-3


def rand_rotation(rng):
    """exact-ish rotations: products of axis permutations/90-degree turns and a 3-4-5 rotation"""
    mats = [np.eye(3)]
    c, s = 0.6, 0.8
    base = [np.array([[c, -s, 0], [s, c, 0], [0, 0, 1]]), np.array([[1, 0, 0], [0, c, -s], [0, s, c]]),
            np.array([[0, 1, 0], [-1, 0, 0], [0, 0, 1]]), np.array([[0, 0, 1], [0, 1, 0], [-1, 0, 0]])]
    R = np.eye(3)
    for _ in range(rng.randrange(1, 5)):
        R = R @ rng.choice(base)
    return R


def run(ctx):
    warnings.filterwarnings("ignore")
    import mdtraj as md
    from mdtraj.utils.unitcell import lengths_and_angles_to_box_vectors as l2v, box_vectors_to_lengths_and_angles as v2l
    import trajfiles as tf
    ctx.rule = ("lengths > 0 x angle triples satisfying the positivity condition (60, 90, 109.47, 120 and random, near-degenerate down to "
                "1e-3) x per-frame variation x random rotations of the vector description x histories of unitcell_vectors/lengths/angles/None "
                "assignments, slicing, joining, stacking, atom subsetting, save+load; non-trivial = distinct non-orthorhombic cell or history "
                "with at least one None assignment")
    ctx.assumptions.append("numpy cos/sin/arccos/sqrt and float32 storage of lengths/angles: predicates are evaluated with 1e-5 relative / 2e-3 degree tolerances")
    rng = ctx.rng
    seen = {}

    def viol(key, what, rp):
        seen.setdefault(key, (what, rp))

    cases = [(1, 1, 1, 90, 90, 90), (2, 3, 4, 90, 90, 90), (3, 3, 5, 90, 90, 120), (3, 3, 5, 90, 90, 60), (4, 4, 4, 109.4712206, 109.4712206, 109.4712206),
             (4, 4, 4, 60, 60, 90), (2, 5, 3, 70, 80, 85), (1.5, 9, 2.2, 100, 95, 130),
             (4, 4, 4, 5, 5, 5), (2, 3, 4, 3, 4, 5), (6, 2, 3, 2.5, 6, 4), (3, 3, 3, 20, 25, 15), (3, 4, 5, 6.2, 6.25, 6.0)]
    while len(cases) < ctx.n(120, 1500):
        # needle-shaped cells too (every angle below 2 pi *degrees*, where the converter suspects radians, and below 30)
        hi_ = rng.choice([None, None, None, None, 6.28, 30.0])
        if hi_ is not None:
            al, be, ga = [rng.uniform(0.2 * hi_, hi_) for _ in range(3)]
        else:
            al, be, ga = [rng.choice([60, 90, 90, 120, rng.uniform(45, 135)]) for _ in range(3)]
        if valid(al, be, ga):
            cases.append((rng.uniform(0.5, 9), rng.uniform(0.5, 9), rng.uniform(0.5, 9), al, be, ga))
    reqs = []
    outs = []
    for (a, b, c, al, be, ga) in cases:
        v = l2v(a, b, c, al, be, ga)
        A, B, C = [np.asarray(x, dtype=np.float64) for x in v]
        outs.append((A, B, C))
        ra, rb, rg = np.radians([al, be, ga])
        if not all(np.isfinite(x).all() for x in (A, B, C)):
            viol("vectors|not-finite", "lengths_and_angles_to_box_vectors(%s) of a valid cell gives %s" % ((a, b, c, al, be, ga), [x.tolist() for x in (A, B, C)]),
                 dict(lengths=[a, b, c], angles=[al, be, ga]))
            reqs.append("cell 1 1 1 0 0 0 1 1")
            continue
        reqs.append("cell %s" % " ".join(rat(x) for x in (a, b, c, np.cos(ra), np.cos(rb), np.cos(rg), np.sin(rg), C[2])))
    model = ctx.driver.query(reqs) if ctx.driver_ok else [None] * len(reqs)
    for (a, b, c, al, be, ga), (A, B, C), m in zip(cases, outs, model):
        if not all(np.isfinite(x).all() for x in (A, B, C)):
            continue
        rp = dict(lengths=[a, b, c], angles=[al, be, ga], vectors=[A.tolist(), B.tolist(), C.tolist()])
        nontriv = (round(a, 4), round(b, 4), round(c, 4), round(al, 3), round(be, 3), round(ga, 3)) if (al, be, ga) != (90, 90, 90) else None
        ctx.case(rp if len(ctx.samples) < 3 else None, nontriv)
        ctx.count("cells")
        tol = 1e-5
        if abs(np.linalg.norm(A) - a) > tol * a or abs(np.linalg.norm(B) - b) > tol * b or abs(np.linalg.norm(C) - c) > tol * c:
            viol("lengths", "box vectors for lengths %s angles %s have lengths %s" % ((a, b, c), (al, be, ga), [np.linalg.norm(x) for x in (A, B, C)]), rp)
        ang = lambda u, v: np.degrees(np.arccos(np.clip(np.dot(u, v) / np.linalg.norm(u) / np.linalg.norm(v), -1, 1)))
        got = (ang(B, C), ang(C, A), ang(A, B))
        if max(abs(got[0] - al), abs(got[1] - be), abs(got[2] - ga)) > 2e-3:
            viol("angles", "box vectors for angles (alpha, beta, gamma)=%s have (b^c, c^a, a^b)=%s" % ((al, be, ga), got), rp)
        if abs(A[1]) + abs(A[2]) + abs(B[2]) > 0 or A[0] <= 0 or B[1] <= 0 or np.linalg.det(np.array([A, B, C])) <= 0:
            viol("orientation", "box vectors %s are not in the standard orientation with positive volume" % rp["vectors"], rp)
        l = v2l(A, B, C)
        if not np.allclose(l, (a, b, c, al, be, ga), rtol=1e-5, atol=2e-3):
            viol("roundtrip", "box_vectors_to_lengths_and_angles(lengths_and_angles_to_box_vectors(%s)) = %s" % ((a, b, c, al, be, ga), l), rp)
        if m is not None:
            p = m.split()
            mv = np.array([float(Fraction(x)) for x in p[1:10]]).reshape(3, 3)
            if np.abs(mv - np.array([A, B, C])).max() > 1e-9 * max(a, b, c) + 1e-12:
                ctx.broke("correspondence:lengths_and_angles_to_box_vectors", "%s: impl %s model %s" % ((a, b, c, al, be, ga), rp["vectors"], mv.tolist()))
        # rotated descriptions through a Trajectory
        R = rand_rotation(rng)
        vecs = (np.array([A, B, C]) @ R.T)[None].astype(np.float32)
        t = md.Trajectory(np.zeros((1, 1, 3), dtype=np.float32), None)
        t.unitcell_vectors = vecs
        if t.unitcell_lengths is None or t.unitcell_angles is None or t.unitcell_vectors is None:
            viol("rotated|cell-lost", "setting unitcell_vectors to a rotated description of lengths %s angles %s (vectors %s) leaves the trajectory without a unit cell" % (
                (a, b, c), (al, be, ga), vecs[0].round(4).tolist()), rp)
            continue
        if not (np.allclose(t.unitcell_lengths[0], (a, b, c), rtol=2e-5) and np.allclose(t.unitcell_angles[0], (al, be, ga), atol=5e-3)):
            viol("rotated", "setting unitcell_vectors to a rotated description of lengths %s angles %s reads back %s %s" % (
                (a, b, c), (al, be, ga), t.unitcell_lengths[0], t.unitcell_angles[0]), rp)
        vol = abs(float(np.dot(A, np.cross(B, C))))
        # (lengths and angles are stored in single precision: the volume of a needle-shaped cell, abc/V in the hundreds, inherits abc * eps)
        if abs(t.unitcell_volumes[0] - vol) > 1e-4 * vol + 4e-6 * a * b * c:
            viol("volume", "unitcell_volumes %.6f, triple product %.6f" % (t.unitcell_volumes[0], vol), rp)
        back = t.unitcell_vectors[0]
        if abs(back[0, 1]) + abs(back[0, 2]) + abs(back[1, 2]) > 0 or np.linalg.det(back.astype(np.float64)) <= 0:
            viol("orientation-traj", "Trajectory.unitcell_vectors %s is not in the standard orientation" % back.tolist(), rp)

    # ---- several frames with different cell shapes in one trajectory (a rectangular frame first, last or in between): every frame's vectors
    # and volume must be those of its own lengths and angles
    ortho = [c for c in cases if c[3:] == (90, 90, 90)]
    skew = [c for c in cases if c[3:] != (90, 90, 90)]
    for _ in range(ctx.n(40, 300)):
        nf = rng.choice([2, 3, 5])
        pick = [rng.choice(ortho if rng.random() < 0.4 else skew) for _ in range(nf)]
        if rng.random() < 0.5:
            pick[0] = rng.choice(ortho)
        t = md.Trajectory(np.zeros((nf, 1, 3), dtype=np.float32), None)
        t.unitcell_lengths = np.array([c[:3] for c in pick]); t.unitcell_angles = np.array([c[3:] for c in pick])
        V = t.unitcell_vectors.astype(np.float64); vols = t.unitcell_volumes
        ctx.count("mixed-shape trajectories")
        ctx.case(None, ("mixed", tuple(round(c[5], 2) for c in pick), tuple(round(c[0], 3) for c in pick)))
        for f, c in enumerate(pick):
            want = np.array([np.asarray(x, dtype=np.float64) for x in l2v(*c)])
            rp = dict(frame=f, lengths=[list(map(float, c[:3])) for c in pick], angles=[list(map(float, c[3:])) for c in pick])
            if np.abs(V[f] - want).max() > 2e-5 * max(c[:3]):
                viol("mixed-frames|vectors|first-%s" % ("rectangular" if pick[0][3:] == (90, 90, 90) else "skewed"),
                     "frame %d of a trajectory whose frames have different cell shapes: unitcell_vectors %s, lengths %s angles %s give %s" % (f, V[f].round(5).tolist(), c[:3], c[3:], want.round(5).tolist()), rp)
                break
            vol = abs(float(np.dot(want[0], np.cross(want[1], want[2]))))
            if abs(vols[f] - vol) > 1e-4 * vol + 4e-6 * c[0] * c[1] * c[2]:
                viol("mixed-frames|volume", "frame %d: unitcell_volumes %.6f, triple product %.6f" % (f, vols[f], vol), rp)
                break
            if not np.array_equal(t[f].unitcell_vectors[0], t.unitcell_vectors[f]):
                viol("mixed-frames|frame-alone", "frame %d alone has unitcell_vectors %s, inside the trajectory %s" % (f, t[f].unitcell_vectors[0].tolist(), t.unitcell_vectors[f].tolist()), rp)
                break

    # ---- setter histories and completeness through operations
    hist = []
    for _ in range(ctx.n(80, 600)):
        n = rng.choice([1, 3, 5])
        ops = []
        for _ in range(rng.randrange(1, 7)):
            k = rng.choice(["L", "A", "V"])
            r = rng.random()
            ops.append(k + ("-" if r < 0.35 else str(n if r < 0.9 else n + 1)))
        hist.append((n, ops))
    hm = ctx.driver.query(["cellops %d %s" % (n, ";".join(ops)) for n, ops in hist]) if ctx.driver_ok else [None] * len(hist)
    for (n, ops), m in zip(hist, hm):
        t = tf.make_traj(n, 6, cell=False)
        for op in ops:
            val = None
            if op[1:] != "-":
                k = int(op[1:])
                val = {"L": np.full((k, 3), 3.0), "A": np.full((k, 3), 90.0), "V": np.tile(np.eye(3) * 3.0, (k, 1, 1))}[op[0]]
            try:
                if op[0] == "L":
                    t.unitcell_lengths = val
                elif op[0] == "A":
                    t.unitcell_angles = val
                else:
                    t.unitcell_vectors = val
            except (ValueError, TypeError):
                pass
        have = t._have_unitcell
        got = "have=%d L=%d A=%d" % (have, t.unitcell_lengths is not None, t.unitcell_angles is not None)
        ctx.case(dict(n_frames=n, ops=ops, state=got), (n, tuple(ops)) if any(o.endswith("-") for o in ops) else None)
        ctx.count("setter histories")
        if (t.unitcell_vectors is not None) != have:
            viol("vectors-reported", "after %s unitcell_vectors is %s but the cell is %s" % (ops, "reported" if t.unitcell_vectors is not None else "None", "complete" if have else "incomplete"), dict(ops=ops))
        if have and not (len(t.unitcell_lengths) == len(t.unitcell_angles) == t.n_frames):
            viol("incomplete", "after %s the cell does not cover every frame" % ops, dict(ops=ops))
        if m is not None and m != got:
            ctx.broke("correspondence:cell-setters", "n=%d ops %s: impl %s model %s" % (n, ops, got, m))
        # whatever state the assignments left (complete, none, lengths only, angles only): slicing, stacking, joining and atom subsetting
        # give a complete per-frame cell exactly when this trajectory has one
        prods_ = {"t[0:n]": lambda: t[0:n], "t[[0]]": lambda: t[[0]], "t.slice(copy=False)": lambda: t.slice(slice(0, n), copy=False), "t.stack(t)": lambda: t.stack(t),
                  "md.join([t])": lambda: md.join([t]), "t.join(t)": lambda: t.join(t), "t.atom_slice": lambda: t.atom_slice([0, 2])}
        for name_, fn_ in prods_.items():
            try:
                r_ = fn_()
            except Exception:  # noqa: BLE001
                continue
            ctx.count("completeness checks after setter histories")
            has_ = r_.unitcell_lengths is not None and r_.unitcell_angles is not None and r_.unitcell_vectors is not None
            if has_ != bool(have) or (has_ and len(r_.unitcell_lengths) != r_.n_frames):
                viol("completeness|after-setters|" + name_, "after %s the trajectory has %s (lengths %s, angles %s); %s has %s" % (
                    ops, "a complete cell" if have else "no complete cell", "set" if t.unitcell_lengths is not None else "None", "set" if t.unitcell_angles is not None else "None",
                    name_, "a complete cell" if has_ else "no complete cell"), dict(ops=ops, op=name_))
                break
    # ---- flat but valid cells (c_z tiny against the edges), long rectangular cells, and a cell with lengths only
    from mdtraj.utils.unitcell import lengths_and_angles_to_box_vectors as l2v
    flat = 0
    for _ in range(ctx.n(400, 4000)):
        Lf = [rng.uniform(1, 6) for _ in range(3)]
        al, be = rng.uniform(40, 140), rng.uniform(40, 140)
        ga_lo = abs(al - be) + 1e-3; ga_hi = min(al + be, 360 - al - be) - 1e-3
        if ga_hi <= ga_lo:
            continue
        ga = rng.choice([ga_lo + rng.uniform(1e-3, 2e-2), ga_hi - rng.uniform(1e-3, 2e-2)])      # close to the edge of the valid region: a flat cell
        Lq, Aq = np.float32(Lf), np.float32([al, be, ga])
        v64 = np.array(l2v(*[float(x) for x in Lq], *[float(x) for x in Aq]))
        vol64 = float(np.linalg.det(v64))
        if not np.isfinite(vol64) or vol64 < 1e-4 * float(np.prod(Lq)):
            continue            # degenerate in double precision as well: outside the valid cells
        tq = md.Trajectory(np.zeros((1, 1, 3), np.float32), None, unitcell_lengths=[Lq], unitcell_angles=[Aq])
        vq = tq.unitcell_vectors[0].astype(np.float64)
        flat += 1
        ctx.case(None, ("flat-cell", flat)); ctx.count("flat valid cells")
        if np.abs(vq - v64).max() > 2e-6 * float(max(Lq)) or abs(float(tq.unitcell_volumes[0]) - vol64) > 1e-4 * vol64 + 1e-7:
            viol("vectors|flat-cell", "cell lengths %s angles %s: unitcell_vectors[2] = %s and volume %.6g, double precision gives %s and %.6g" % (
                Lq.tolist(), Aq.tolist(), vq[2].tolist(), float(tq.unitcell_volumes[0]), v64[2].tolist(), vol64), dict(lengths=Lq.tolist(), angles=Aq.tolist()))
            break
    for Lbig in (25.0, 30.0, 250.0):
        tq = md.Trajectory(np.zeros((1, 1, 3), np.float32), None, unitcell_lengths=[[Lbig] * 3], unitcell_angles=[[90.0] * 3])
        ctx.case(None, ("long-rectangular", Lbig)); ctx.count("long rectangular cells")
        if not np.array_equal(tq.unitcell_vectors[0], np.eye(3, dtype=np.float32) * np.float32(Lbig)):
            viol("vectors|rectangular-not-diagonal", "a rectangular cell of %g nm has unitcell_vectors %s" % (Lbig, tq.unitcell_vectors[0].tolist()), dict(length=Lbig))
    th = tf.make_traj(3, 6, cell=True)
    th.unitcell_angles = None
    ctx.case(None, ("volumes-half-set",)); ctx.count("half-set cells")
    try:
        if th.unitcell_volumes is not None:
            viol("volumes|half-set", "a trajectory with cell lengths but no angles reports unitcell_volumes %s" % th.unitcell_volumes, dict())
    except Exception as e:  # noqa: BLE001
        viol("volumes|half-set", "unitcell_volumes of a trajectory with cell lengths but no angles raised %s: %s" % (type(e).__name__, e), dict())
    # completeness through slicing / joining / stacking / atom subsetting / save+load
    for cell in (True, False):
        t = tf.make_traj(5, 12, cell=cell)
        prods = {"slice": t[1:4], "index-list": t[[0, 4, 2]], "join": t.join(t[::-1]), "stack": t.stack(t), "atom_slice": t.atom_slice([0, 3, 5])}
        for ext in ("h5", "xtc", "dcd", "nc", "pdb"):
            p = os.path.join(ctx.scratch, "c." + ext)
            t.save(p)
            prods["save+load ." + ext] = md.load(p, top=t.topology) if ext not in ("h5", "pdb") else md.load(p)
        for name, r in prods.items():
            ctx.case(None, ("complete", name, cell)); ctx.count("completeness checks")
            has = r.unitcell_lengths is not None and r.unitcell_angles is not None
            if has != cell or (has and len(r.unitcell_lengths) != r.n_frames):
                viol("completeness|" + name, "%s of a trajectory %s a cell gives a trajectory %s a complete per-frame cell" % (name, "with" if cell else "without", "with" if has else "without"), dict(op=name, cell=cell))
            if has and r.unitcell_volumes is not None:
                v = r.unitcell_vectors.astype(np.float64)
                tp = np.einsum("fi,fi->f", v[:, 0], np.cross(v[:, 1], v[:, 2]))
                if not np.allclose(r.unitcell_volumes, tp, rtol=1e-5):
                    viol("volume-triple", "%s: unitcell_volumes differ from the triple product" % name, dict(op=name))
    for key, (what, rp) in seen.items():
        ctx.violation(key, what, rp)


def replay(ctx, path):
    import json
    print(json.load(open(path))["what"])
    return 1
