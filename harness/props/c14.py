"""C14: reported hydrogen bonds are exactly those meeting the stated criteria.
Theorems (Properties/C14.lean): the candidate triplets are exactly the (N|O)-H donors x N|O acceptors that may participate; the square-root-free
angle test; the distance prefilter never changes the result (a triplet is returned iff its presence fraction exceeds freq); the Wernet-Nilsson
cone lies inside its prefilter; store_energies keeps the two lowest energies for every candidate sequence; which residue pairs the
Kabsch-Sander kernel evaluates.
Correspondence: _get_bond_triplets vs the model (`hbtrip`); baker_hubbard vs the model's exact decisions on rational coordinates with decision
margins (`bh`); Kabsch-Sander bookkeeping (skip mask, C-alpha prefilter on exact coordinates, adjacency rule, proline donors, threshold, best two)
vs the model fed with the oracle's energy table (`ks`).
Oracle (independent): triplets derived from the topology by the documented rules; float64 distances (brute-force minimum image when periodic)
and angles from displacement vectors; frequency over frames; cone criterion; Kabsch-Sander energies from the documented formula with the amide
hydrogen 0.1 nm from N along the preceding residue's O->C direction.  Triplets / pairs within the property's 1e-5 margin of a threshold are excluded."""
import json
import os
import warnings
from fractions import Fraction

import numpy as np

from props.c05 import cells, rat, brute_min

BONDS = {
    "ALA": [("N", "H"), ("N", "CA"), ("CA", "HA"), ("CA", "CB"), ("CB", "HB1"), ("CA", "C"), ("C", "O")],
    "GLY": [("N", "H"), ("N", "CA"), ("CA", "HA2"), ("CA", "HA3"), ("CA", "C"), ("C", "O")],
    "SER": [("N", "H"), ("N", "CA"), ("CA", "HA"), ("CA", "CB"), ("CB", "OG"), ("OG", "HG"), ("CA", "C"), ("C", "O")],
    "LYS": [("N", "H"), ("N", "CA"), ("CA", "CB"), ("CB", "CG"), ("CG", "NZ"), ("NZ", "HZ1"), ("NZ", "HZ2"), ("CA", "C"), ("C", "O")],
    "PRO": [("N", "CA"), ("CA", "CB"), ("CB", "CG"), ("CG", "CD"), ("CD", "N"), ("CA", "C"), ("C", "O")],
    "HOH": [("O", "H1"), ("O", "H2")],
    "LIG": [("N1", "H1"), ("N1", "C1"), ("C1", "O1"), ("O1", "H2"), ("C1", "S1")],
}
PROTEIN = {"ALA", "GLY", "SER", "LYS", "PRO"}


def atoms_of(name):
    seen = []
    for a, b in BONDS[name]:
        for x in (a, b):
            if x not in seen:
                seen.append(x)
    return seen


def element_of(md, n):
    E = md.element
    return {"C": E.carbon, "N": E.nitrogen, "O": E.oxygen, "H": E.hydrogen, "S": E.sulfur}[n[0]]


def cluster(md, rng):
    """a compact cluster of peptide units (N-H, CA, C=O with realistic bond lengths, random orientations, all CA within about 0.8 nm):
    several carbonyl groups lie close to the same N-H, so that donors have three and more acceptors below -0.5 kcal/mol, met in any order"""
    top = md.Topology()
    ch = top.add_chain()
    pos = []
    nres = rng.randrange(5, 10)
    unit = lambda: (lambda v: v / np.linalg.norm(v))(np.array([rng.gauss(0, 1) for _ in range(3)]))
    for ri in range(nres):
        # the backbone decides, not the residue name: protonation / disulfide / terminal names of force fields (HIE, CYX, ASH, NALA) and
        # peptide-like ligands are not in mdtraj's amino-acid table
        r = top.add_residue(rng.choice(["ALA", "GLY", "SER", "ALA", "PRO", "HIE", "CYX", "ASH", "NALA", "LIG"]), ch, ri + 1)
        c0 = unit() * rng.uniform(0.0, 0.42)
        n_ = c0 + unit() * 0.12
        atoms = {}
        for an, xyz in (("N", n_), ("H", n_ + unit() * 0.1), ("CA", c0), ("C", c0 + unit() * 0.152)):
            atoms[an] = top.add_atom(an, element_of(md, an), r); pos.append(xyz)
        atoms["O"] = top.add_atom("O", element_of(md, "O"), r); pos.append(pos[-1] + unit() * 0.123)
        for a, b in (("N", "H"), ("N", "CA"), ("CA", "C"), ("C", "O")):
            top.add_bond(atoms[a], atoms[b])
    return top, np.array(pos)


def synth(md, rng):
    """topology with bonds + coordinates with planted donor-H...acceptor geometries around the thresholds"""
    top = md.Topology()
    pos = []
    centre = np.zeros(3)
    prev_c = None
    for ci in range(rng.choice([1, 2])):
        ch = top.add_chain()
        prev_c = None
        for ri in range(rng.randrange(2, 7)):
            name = rng.choice(["ALA", "GLY", "SER", "LYS", "PRO", "HOH", "HOH", "LIG"])
            r = top.add_residue(name, ch, ri + 1)
            centre = centre + np.array([rng.gauss(0, 1) for _ in range(3)]) * 0.35
            amap = {}
            for an in atoms_of(name):
                if name in PROTEIN and an not in ("N", "H") and rng.random() < 0.04:
                    continue
                amap[an] = top.add_atom(an, element_of(md, an), r)
                pos.append(centre + np.array([rng.gauss(0, 1) for _ in range(3)]) * 0.12)
            for a, b in BONDS[name]:
                if a in amap and b in amap and rng.random() < 0.95:
                    x, y = (amap[a], amap[b]) if rng.random() < 0.5 else (amap[b], amap[a])
                    top.add_bond(x, y)
            if name in PROTEIN:
                if prev_c is not None and "N" in amap:
                    top.add_bond(prev_c, amap["N"])
                prev_c = amap.get("C")
            else:
                prev_c = None
    pos = np.array(pos)
    # donor hydrogens sit 0.1 nm from their heavy atom
    for b0, b1 in top.bonds:
        syms = {b0.element.symbol, b1.element.symbol}
        if "H" in syms and syms & {"N", "O"}:
            h, d = (b0, b1) if b0.element.symbol == "H" else (b1, b0)
            v = np.array([rng.gauss(0, 1) for _ in range(3)]); v /= np.linalg.norm(v)
            pos[h.index] = pos[d.index] + 0.1 * v
    return top, pos


def plant(rng, top, pos, n_plants):
    """move acceptor atoms to chosen H...A distances and D-H...A angles; returns a new coordinate array"""
    pos = pos.copy()
    dh = []
    for b0, b1 in top.bonds:
        syms = {b0.element.symbol, b1.element.symbol}
        if "H" in syms and syms & {"N", "O"}:
            h, d = (b0, b1) if b0.element.symbol == "H" else (b1, b0)
            dh.append((d.index, h.index))
    acc = [a.index for a in top.atoms if a.element.symbol in ("N", "O")]
    used = set()
    for _ in range(n_plants):
        if not dh or not acc:
            break
        d, h = rng.choice(dh)
        a = rng.choice(acc)
        if a in (d, h) or a in used or any(a == x for pair in dh for x in pair if pair[0] == a and False):
            continue
        used.add(a)
        r = rng.choice([0.15, 0.2, 0.24, 0.2499, 0.2501, 0.26, 0.3, 0.23])
        dev = np.deg2rad(rng.choice([0, 20, 45, 59, 59.99, 60.01, 61, 75]))
        u = pos[h] - pos[d]; u /= np.linalg.norm(u)
        w = np.cross(u, np.array([rng.gauss(0, 1) for _ in range(3)])); w /= np.linalg.norm(w)
        pos[a] = pos[h] + r * (np.cos(dev) * u + np.sin(dev) * w)
    return pos


def mic(box, v):
    if box is None:
        return v
    base = np.rint(np.linalg.solve(box.T, v))
    best = None
    for i in (-1, 0, 1):
        for j in (-1, 0, 1):
            for k in (-1, 0, 1):
                c = v - (base + np.array([i, j, k])) @ box
                if best is None or c @ c < best @ best:
                    best = c
    return best


def expected_triplets(top, exclude_water, sidechain_only, protein_names):
    def can(a):
        if exclude_water and a.residue.is_water:
            return False
        if sidechain_only and not (a.residue.name in protein_names and a.name not in {"C", "CA", "N", "O", "HA", "H"}):
            return False
        return True
    out = []
    for heavy in ("N", "O"):
        for b0, b1 in top.bonds:
            if {b0.element.symbol, b1.element.symbol} == {heavy, "H"} and can(b0) and can(b1):
                d, h = (b0, b1) if b1.element.symbol == "H" else (b1, b0)
                for a in top.atoms:
                    if a.element.symbol in ("N", "O") and can(a) and a.index != d.index:
                        out.append((d.index, h.index, a.index))
    return out


def ks_oracle(top, X):
    """returns dict (donor_res, acceptor_res) -> energy for all evaluated candidates, the candidate rules, and skip/proline flags"""
    res = []
    for r in top.residues:
        g = lambda nm: next((a.index for a in r.atoms if a.name == nm), -1)
        res.append(dict(n=g("N"), ca=g("CA"), c=g("C"), o=g("O"), pro=r.name == "PRO"))
    nres = len(res)
    skip = [min(q["n"], q["ca"], q["c"], q["o"]) < 0 for q in res]
    H = [None] * nres
    for i in range(nres):
        if skip[i]:
            continue
        if i == 0 or skip[i - 1]:
            H[i] = X[res[i]["n"]].copy()
        else:
            co = X[res[i - 1]["c"]] - X[res[i - 1]["o"]]
            H[i] = X[res[i]["n"]] + 0.1 * co / np.linalg.norm(co)
    E = {}
    for i in range(nres):
        for j in range(nres):
            if i == j or skip[i] or skip[j]:
                continue
            lo, hi = min(i, j), max(i, j)
            dca = X[res[lo]["ca"]] - X[res[hi]["ca"]]
            if not dca @ dca < 0.81:
                continue
            if i > j and i == j + 1:
                continue          # donor i+1 -> acceptor i is never evaluated
            d, a = i, j
            n_, h_, c_, o_ = X[res[d]["n"]], H[d], X[res[a]["c"]], X[res[a]["o"]]
            with np.errstate(divide="ignore", invalid="ignore"):
                e = 2.7888 * (1 / np.linalg.norm(n_ - o_) + 1 / np.linalg.norm(h_ - c_) - 1 / np.linalg.norm(h_ - o_) - 1 / np.linalg.norm(n_ - c_))
            if np.isfinite(e):
                E[(d, a)] = max(float(e), -9.9)
    return res, skip, E


def run(ctx):
    warnings.filterwarnings("ignore")
    import mdtraj as md
    from mdtraj.geometry import hbond as hbmod
    ctx.rule = ("synthetic multi-chain systems (ALA/GLY/SER/LYS/PRO with missing atoms, water, a ligand with N-H and O-H; bonds in random orientation) with donor-H...acceptor "
                "geometries planted at H...A distances 0.15-0.30 nm and angle deviations 0-75 degrees around the thresholds, 1..6 frames mixing planted and unplanted "
                "coordinates, no cell or the cells of C05; real structures (2EQQ NMR models, bpti, slices with residues made incomplete, waters interleaved) with noise x "
                "freq x distance/angle cutoffs x exclude_water x sidechain_only x periodic; non-trivial = distinct (system, call) returning or rejecting at least one candidate")
    ctx.assumptions += ["candidates within 1e-5 nm / 1e-4 rad / 1e-3 kcal/mol of a threshold, or whose presence fraction equals freq, are excluded from exact set comparison (counted)",
                        "Kabsch-Sander energies are float32 sums of reciprocal square roots: compared within 2e-3 kcal/mol; the model receives the oracle's energy table"]
    rng = ctx.rng
    seen = {}
    data = os.path.join("/repo", "tests", "data")

    def viol(key, what, rp):
        seen.setdefault(key, (what, rp))
    reqs, meta = [], []
    real = [md.load(os.path.join(data, "2EQQ.pdb")), md.load(os.path.join(data, "bpti.pdb"))]

    for k in range(ctx.n(40, 300)):
        use_real = k % 4 == 3
        if use_real:
            base = real[rng.randrange(len(real))]
            fr = sorted(rng.sample(range(base.n_frames), min(base.n_frames, rng.choice([1, 3, 6]))))
            nres = base.n_residues
            r0 = rng.randrange(0, max(1, nres - 12)); r1 = min(nres, r0 + rng.randrange(8, 20))
            keep = [a.index for a in base.topology.atoms if r0 <= a.residue.index < r1]
            # make some residues incomplete
            for _ in range(rng.choice([0, 1, 2])):
                rr = rng.randrange(r0, r1); nm = rng.choice(["O", "N", "CA", "C", "H"])
                keep = [i for i in keep if not (base.topology.atom(i).residue.index == rr and base.topology.atom(i).name == nm)]
            t0 = base[fr].atom_slice(keep)
            top = t0.topology
            X = t0.xyz.astype(np.float64) + np.array([[[rng.gauss(0, 1) for _ in range(3)] for _ in range(t0.n_atoms)] for _ in fr]) * rng.choice([0, 0.005, 0.02])
            protein_names = {r.name for r in top.residues if r.is_protein}
        elif k % 4 == 1:
            top, p0 = cluster(md, rng)
            nfr = rng.choice([1, 2, 3])
            X = np.array([p0 + np.array([[rng.gauss(0, 1) for _ in range(3)] for _ in range(len(p0))]) * (0.0 if f == 0 else 0.01) for f in range(nfr)])
            protein_names = PROTEIN
        else:
            top, p0 = synth(md, rng)
            nfr = rng.choice([1, 2, 4, 6])
            planted = plant(rng, top, p0, rng.randrange(2, 10))
            X = np.array([(planted if rng.random() < 0.6 else p0) + np.array([[rng.gauss(0, 1) for _ in range(3)] for _ in range(len(p0))]) * rng.choice([0, 0, 0.003]) for _ in range(nfr)])
            protein_names = PROTEIN
        nfr, n = X.shape[0], X.shape[1]
        periodic = (not use_real) and rng.random() < 0.35
        box = None
        if periodic:
            kind, b = cells(rng)
            b = (b * 1.5).astype(np.float64)
            # per-atom lattice shifts: covalent bonds and hydrogen bonds straddle cell faces, as in per-atom wrapped coordinates
            for f in range(nfr):
                for a in range(n):
                    if rng.random() < 0.5:
                        X[f, a] = X[f, a] + np.array([rng.randrange(-1, 2) for _ in range(3)]) @ b
        X = (np.round(X * 4096) / 4096).astype(np.float32)
        t = md.Trajectory(X.copy(), top)
        if periodic:
            t.unitcell_vectors = np.tile(b[None], (nfr, 1, 1))
            box = t.unitcell_vectors[0].astype(np.float64)
        X64 = X.astype(np.float64)
        desc = dict(source="real" if use_real else ("cluster" if k % 4 == 1 else "synthetic"), n_atoms=n, n_residues=top.n_residues, frames=nfr, periodic=periodic)
        rp0 = dict(desc, seed=ctx.seed, case=k, residues=[(r.name, [a.name for a in r.atoms]) for r in top.residues][:40],
                   bonds=[[b0.index, b1.index] for b0, b1 in top.bonds][:400], xyz=X.tolist() if n <= 80 else None, box=None if box is None else box.tolist())
        if top.n_bonds == 0:
            continue

        # ---------------- baker_hubbard / wernet_nilsson
        exw = rng.random() < 0.5
        sco = rng.random() < 0.25
        freq = rng.choice([0.0, 0.1, 0.3, 0.5, 0.9])
        dcut = rng.choice([0.25, 0.25, 0.22, 0.3])
        acut = rng.choice([120, 120, 100, 140])
        trips = expected_triplets(top, exw, sco, protein_names)
        try:
            impl_trips = [tuple(int(x) for x in r) for r in hbmod._get_bond_triplets(top, exclude_water=exw, sidechain_only=sco)]
        except Exception as e:
            impl_trips = None
            ctx.broke("translator:_get_bond_triplets", "%s: %s" % (type(e).__name__, e))
        if impl_trips is not None:
            if sorted(impl_trips) != sorted(trips) or len(set(impl_trips)) != len(impl_trips):
                viol("triplets|set|water-%d|sidechain-%d" % (exw, sco), "candidate donor-H-acceptor triplets differ from the rule (N-H / O-H bonds x N,O acceptors, exclude_water=%s, sidechain_only=%s): %d listed, %d expected; e.g. %s" % (
                    exw, sco, len(impl_trips), len(trips), sorted(set(impl_trips) ^ set(trips))[:4]), dict(rp0, exclude_water=exw, sidechain_only=sco))
            elem = {"H": 1, "N": 2, "O": 3}
            recs = " ".join("%d|%d|%d" % (elem.get(a.element.symbol, 0), a.residue.is_water, a.is_sidechain) for a in top.atoms)
            reqs.append("hbtrip %d %d %d %s %s" % (exw, sco, n, recs, ",".join("%d-%d" % (b0.index, b1.index) for b0, b1 in top.bonds)))
            meta.append(("trip", k, desc, impl_trips, None))
        # geometry of every candidate
        geo = {}
        for (d, h, a) in trips:
            rows = []
            for f in range(nfr):
                bx = None if box is None else t.unitcell_vectors[f].astype(np.float64)
                vHD = mic(bx, X64[f, d] - X64[f, h]); vHA = mic(bx, X64[f, a] - X64[f, h]); vDA = mic(bx, X64[f, a] - X64[f, d]); vDH = -vHD
                rHA = np.linalg.norm(vHA); rDA = np.linalg.norm(vDA)
                with np.errstate(divide="ignore", invalid="ignore"):
                    th = np.arccos(np.clip(vHD @ vHA / np.linalg.norm(vHD) / rHA, -1, 1))
                    de = np.degrees(np.arccos(np.clip(vDH @ vDA / np.linalg.norm(vDH) / rDA, -1, 1)))
                if bx is not None and np.abs(vDH + vHA - vDA).max() > 1e-6:
                    # the three minimum-image sides do not close into a triangle: some separation is beyond half the cell (e.g. a
                    # covalent bond stretched across more than half a box in a generated frame), where the geometry of a triplet
                    # is not defined by minimum images and the property makes no claim -> undecided, counted
                    th = de = float("nan")
                    ctx.count("triplet frames beyond the minimum-image range (undecided)")
                rows.append((rHA, th, rDA, de))
            geo[(d, h, a)] = rows
        rp = dict(rp0, call="baker_hubbard", freq=freq, distance_cutoff=dcut, angle_cutoff=acut, exclude_water=exw, sidechain_only=sco)
        try:
            got = {tuple(int(x) for x in r) for r in md.baker_hubbard(t, freq=freq, exclude_water=exw, periodic=periodic, sidechain_only=sco, distance_cutoff=dcut, angle_cutoff=acut)}
        except Exception as e:
            got = None
            viol("bh|raises", "baker_hubbard raised %s: %s" % (type(e).__name__, e), rp)
        if got is not None:
            ctx.count("baker_hubbard calls")
            want, unsure = set(), set()
            for tr, rows in geo.items():
                pres = [r[0] < dcut and r[1] > np.radians(acut) for r in rows]
                marginal = any(abs(r[0] - dcut) < 2e-5 or (r[0] < dcut + 1e-4 and abs(r[1] - np.radians(acut)) < 2e-4) or not np.isfinite(r[1]) for r in rows)
                frac = Fraction(sum(pres), nfr)
                if marginal:
                    unsure.add(tr)
                elif frac > Fraction(freq).limit_denominator(1000):      # strictly greater: a fraction equal to freq is not reported
                    want.add(tr)
            ctx.counters["bh: candidates decided"] = ctx.counters.get("bh: candidates decided", 0) + len(geo) - len(unsure)
            ctx.counters["bh: hydrogen bonds expected"] = ctx.counters.get("bh: hydrogen bonds expected", 0) + len(want)
            ctx.case(desc if len(ctx.samples) < 4 else None, (k, "bh") if (want or got) else None)
            ctx.counters["bh: candidates within the margin of a threshold (excluded)"] = ctx.counters.get("bh: candidates within the margin of a threshold (excluded)", 0) + len(unsure)
            miss, extra = want - got - unsure, got - want - unsure
            if miss or extra or not got <= set(trips):
                tr = sorted(miss | extra)[0] if (miss | extra) else sorted(got - set(trips))[0]
                rows = geo.get(tr)
                viol("bh|%s|periodic-%d|freq-%s" % ("missing" if miss else "extra", periodic, "zero" if freq == 0 else "positive"),
                     "baker_hubbard(freq=%s, distance_cutoff=%s, angle_cutoff=%s): triplet %s %s; per-frame (H...A nm, angle deg) = %s" % (
                         freq, dcut, acut, tr, "is not reported" if miss else "is reported", None if rows is None else [(round(r[0], 5), round(np.degrees(r[1]), 3)) for r in rows]), rp)
            if not periodic and trips and len(trips) <= 400 and n <= 120:
                sub = trips[:120]
                kc = Fraction(-1, 2) if acut == 120 else Fraction(float(np.cos(np.radians(acut))))
                reqs.append("bh %s %s %s %d %s %s" % (rat(dcut), "%d/%d" % (kc.numerator, kc.denominator), rat(freq), nfr, ",".join("%d-%d-%d" % tr for tr in sub),
                                                    " ".join(rat(x) for x in X.ravel())))
                meta.append(("bh", k, desc, got, sub))
        rp = dict(rp0, call="wernet_nilsson", exclude_water=exw, sidechain_only=sco)
        try:
            gw = md.wernet_nilsson(t, exclude_water=exw, periodic=periodic, sidechain_only=sco)
        except Exception as e:
            gw = None
            viol("wn|raises", "wernet_nilsson raised %s: %s" % (type(e).__name__, e), rp)
        if gw is not None:
            ctx.count("wernet_nilsson calls")
            if len(gw) != nfr:
                viol("wn|shape", "wernet_nilsson returned %d frames for %d" % (len(gw), nfr), rp)
            else:
                for f in range(nfr):
                    gotf = {tuple(int(x) for x in r) for r in np.asarray(gw[f]).reshape(-1, 3)}
                    want, unsure = set(), set()
                    for tr, rows in geo.items():
                        rDA, de = rows[f][2], rows[f][3]
                        cut = 0.33 - 0.000044 * de * de
                        if not np.isfinite(de) or abs(rDA - cut) < 3e-5:
                            unsure.add(tr)
                        elif rDA < cut:
                            want.add(tr)
                    ctx.counters["wn: hydrogen bonds expected"] = ctx.counters.get("wn: hydrogen bonds expected", 0) + len(want)
                    ctx.case(None, (k, "wn", f) if (want or gotf) else None)
                    miss, extra = want - gotf - unsure, gotf - want - unsure
                    if miss or extra:
                        tr = sorted(miss | extra)[0]
                        viol("wn|%s|periodic-%d" % ("missing" if miss else "extra", periodic), "wernet_nilsson frame %d: triplet %s %s; r_DA = %.5f nm, delta_HDA = %.3f deg, cone cutoff %.5f" % (
                            f, tr, "is not reported" if miss else "is reported", geo[tr][f][2], geo[tr][f][3], 0.33 - 0.000044 * geo[tr][f][3] ** 2), rp)
                        break

        # ---------------- kabsch_sander
        rpk = dict(rp0, call="kabsch_sander")
        try:
            mats = md.kabsch_sander(t)
        except Exception as e:
            mats = None
            viol("ks|raises", "kabsch_sander raised %s: %s" % (type(e).__name__, e), rpk)
        if mats is not None:
            ctx.count("kabsch_sander calls")
            for f in range(nfr):
                res, skip, E = ks_oracle(top, X64[f])
                nres = len(res)
                M = mats[f].toarray()
                if M.shape != (nres, nres):
                    viol("ks|shape", "kabsch_sander matrix has shape %s for %d residues" % (M.shape, nres), rpk)
                    break
                gotp = {(int(j), int(i)): float(M[i, j]) for i, j in zip(*np.nonzero(M))}      # (donor, acceptor) -> energy; M[acceptor, donor]
                bad = None
                want = {}
                for dnr in range(nres):
                    cands = sorted([(e, a) for (dd, a), e in E.items() if dd == dnr and e < -0.5 and not res[dnr]["pro"]])
                    marg = [(e, a) for (dd, a), e in E.items() if dd == dnr and abs(e + 0.5) < 2e-3]
                    amb = bool(marg) or (len(cands) > 2 and abs(cands[2][0] - cands[1][0]) < 2e-3)
                    for e, a in cands[:2]:
                        want[(dnr, a)] = (e, amb)
                    gd = {p: e for p, e in gotp.items() if p[0] == dnr}
                    if amb:
                        ctx.count("ks: donors with an energy within 2e-3 of a decision (excluded)")
                        continue
                    if set(gd) != {(dnr, a) for e, a in cands[:2]}:
                        bad = (dnr, sorted(gd.items()), [(a, round(e, 4)) for e, a in cands[:3]])
                        break
                    for (dd, a), e in gd.items():
                        if abs(e - E[(dd, a)]) > 2e-3 * max(1.0, abs(e)):
                            bad = (dnr, sorted(gd.items()), [(a, round(e2, 4)) for e2, a in cands[:3]])
                ctx.case(None, (k, "ks", f) if gotp else None)
                if bad is not None:
                    prevskip = bad[0] > 0 and skip[bad[0] - 1]
                    viol("ks|bonds|%s" % ("after-incomplete-residue" if prevskip else "regular"),
                         "kabsch_sander frame %d: donor residue %d has bonds %s; the documented energies give (acceptor, E) %s (best two below -0.5 kcal/mol)" % (f, bad[0], bad[1], bad[2]), rpk)
                    break
                if f == 0 and nres <= 40:
                    ca = " ".join(rat(x) for q in res for x in (X[f, q["ca"]] if q["ca"] >= 0 else np.zeros(3, dtype=np.float32)))
                    ents = " ".join("%d-%d:%s" % (d_, a_, rat(np.float32(e))) for (d_, a_), e in E.items())
                    reqs.append("ks %d %s %s %s %s" % (nres, "".join("1" if s else "0" for s in skip), "".join("1" if q["pro"] else "0" for q in res), ca, ents))
                    meta.append(("ks", k, desc, gotp, (E, [q["pro"] for q in res])))

    model = ctx.driver.query(reqs) if ctx.driver_ok and reqs else [None] * len(reqs)
    for (what, k, desc, got, extra), m in zip(meta, model):
        if m is None:
            continue
        if m == "bad-op":
            ctx.broke("driver:" + what, "bad-op for case %d" % k)
            continue
        if what == "trip":
            ctx.count("triplet lists compared with the model")
            mt = [] if m == "-" else [tuple(int(x) for x in p.split("-")) for p in m.split(",")]
            if mt != got:
                ctx.broke("correspondence:triplets", "case %d: _get_bond_triplets has %d rows, the model %d; first difference %s" % (
                    k, len(got), len(mt), next(((a, b) for a, b in zip(got, mt) if a != b), None)))
        elif what == "bh":
            ctx.count("baker_hubbard results compared with the model")
            for tr, item in zip(extra, m.split(";")):
                keep, marg, fm, cnt = item.split(":")
                if float(Fraction(marg)) < 2e-4 or float(Fraction(fm)) < 1e-9:
                    continue
                if (keep == "1") != (tr in got):
                    ctx.broke("correspondence:baker_hubbard", "case %d: triplet %s kept by the model: %s, by mdtraj: %s (presence count %s)" % (k, tr, keep, tr in got, cnt))
                    break
        elif what == "ks":
            ctx.count("Kabsch-Sander frames compared with the model")
            E, pro = extra
            slots, cand = m.split(" C ")
            mc = set() if cand.strip() == "-" else {tuple(int(x) for x in p.split("-")) for p in cand.strip().split(",")}
            if mc != set(E.keys()) | {p for p in mc if p not in E and False}:
                missing = sorted(set(E.keys()) ^ mc)[:5]
                # pairs whose oracle energy is not finite are absent from E
                if any(True for _ in missing):
                    ctx.broke("correspondence:ks-candidates", "case %d: evaluated (donor, acceptor) pairs differ between oracle and model: %s" % (k, missing))
                    continue
            for dnr, sl in enumerate(slots.split(";")):
                acc = {int(x) for x in sl.split(",") if x != "-"}
                es = sorted(e for (dd, a), e in E.items() if dd == dnr and e < -0.5)
                if any(abs(e + 0.5) < 2e-3 for (dd, a), e in E.items() if dd == dnr) or (len(es) > 2 and abs(es[2] - es[1]) < 2e-3):
                    continue
                ga = {a for (dd, a) in got if dd == dnr}
                if acc != ga:
                    ctx.broke("correspondence:ks-best-two", "case %d donor %d: mdtraj acceptors %s, model %s" % (k, dnr, sorted(ga), sorted(acc)))
                    break
    for key, (what, rp) in seen.items():
        ctx.violation(key, what, rp)


def replay(ctx, path):
    print(json.load(open(path))["what"])
    return 1
