"""C06: md.rmsd is the optimal-superposition RMSD and Trajectory.superpose attains it.
Theorems (Properties/C06.lean): the code's K matrix, polynomial coefficients, adjugate columns and rotation entries are mutually
consistent for all inputs (residual(q) = Ga + Gb - 2 q'Kq, det(K - xI) = P(x), every adjugate column is an eigenvector at a root, the
largest column is non-zero at a simple root, R(q) is a proper rotation), and a certificate (P(h) > 0, P'(h) >= 0, P''(h) >= 0) excludes roots above h.
Correspondence: for every md.rmsd result the driver evaluates, in exact rationals on the same float32 coordinates, the sign pattern of
that certificate around lambda = (Ga + Gb - N r^2)/2 (`qcp`), i.e. that the value the double-precision quartic solver returned is the largest
root of the model's polynomial; and the rotation of Model/Qcp.lean (`qrot`) is compared with what superpose did.
Oracle (independent of the model): float64 Kabsch/SVD minimum with det correction; rigidity and handedness of superpose by a float64 fit of
before/after; zero-self, symmetry, rigid-motion invariance, parallel flag, precentered, atom selections vs sliced trajectories; rmsf vs its definition."""
import json
import warnings
from fractions import Fraction

import numpy as np

from props.c05 import rat


def topo(md, n):
    t = md.Topology()
    c = t.add_chain()
    r = t.add_residue("X", c)
    for i in range(n):
        t.add_atom("C%d" % i, md.element.carbon, r)
    return t


def kabsch(A, B):
    """float64: minimal msd of A onto B over proper rotations + translations; singular values; rotation R with (A-cA) R ~ (B-cB)"""
    A = A - A.mean(0)
    B = B - B.mean(0)
    H = A.T @ B
    U, S, Vt = np.linalg.svd(H)
    d = 1.0 if np.linalg.det(U @ Vt) > 0 else -1.0
    lam = S[0] + S[1] + d * S[2]
    R = U @ np.diag([1, 1, d]) @ Vt
    Ga, Gb = (A * A).sum(), (B * B).sum()
    # eigenvalues of K: s1+s2+d s3, s1-s2-d s3, -s1+s2-d s3, -s1-s2+d s3
    lam2 = S[0] - S[1] - d * S[2]
    return max(0.0, (Ga + Gb - 2 * lam) / len(A)), Ga, Gb, lam, lam - lam2, S, R


def q10(x):
    return np.round(np.asarray(x, dtype=np.float64) * 1024) / 1024


def rand_rot(rng):
    while True:
        q = np.array([rng.gauss(0, 1) for _ in range(4)])
        if q @ q > 1e-3:
            break
    q /= np.linalg.norm(q)
    a, x, y, z = q
    return np.array([[a*a+x*x-y*y-z*z, 2*(x*y-a*z), 2*(x*z+a*y)], [2*(x*y+a*z), a*a-x*x+y*y-z*z, 2*(y*z-a*x)], [2*(x*z-a*y), 2*(y*z+a*x), a*a-x*x-y*y+z*z]])


def half_turn(rng):
    if rng.random() < 0.5:
        ax = np.zeros(3); ax[rng.randrange(3)] = 1.0
    else:
        ax = np.array([rng.gauss(0, 1) for _ in range(3)]); ax /= np.linalg.norm(ax)
    return 2 * np.outer(ax, ax) - np.eye(3)


def make_pair(rng, n, scale, kind):
    A = np.array([[rng.gauss(0, 1) for _ in range(3)] for _ in range(n)]) * scale
    if kind == "rand":
        B = np.array([[rng.gauss(0, 1) for _ in range(3)] for _ in range(n)]) * scale
    elif kind == "near":
        B = A + np.array([[rng.gauss(0, 1) for _ in range(3)] for _ in range(n)]) * scale * rng.choice([1e-3, 1e-2, 0.1])
    elif kind == "mirror":
        B = A * np.array([-1, 1, 1])
    elif kind == "planar":
        A[:, 2] *= 0.02
        B = A + np.array([[rng.gauss(0, 1) for _ in range(3)] for _ in range(n)]) * scale * 0.05
        B[:, 2] *= 0.02
    elif kind == "rot":
        B = A @ rand_rot(rng)
    elif kind == "halfturn":
        B = A @ half_turn(rng) + np.array([[rng.gauss(0, 1) for _ in range(3)] for _ in range(n)]) * scale * rng.choice([0, 0, 1e-3, 0.03])
    elif kind == "nearhalf":
        R = half_turn(rng) @ rand_rot_small(rng, rng.choice([1e-5, 3e-5, 1e-4, 1e-3, 1e-2, 0.1]))
        B = A @ R
    elif kind == "symmetric":
        # symmetric tops against their mirror image / inversion-relabelled copy: the best proper rotation is not unique and the two largest
        # eigenvalues of the key matrix coincide (n = 8: square prism, 12: hexagonal prism, 9: three-bladed propeller)
        def prism(k_, r_, h_):
            ang = 2 * np.pi * np.arange(k_) / k_
            ring = np.stack([r_ * np.cos(ang), r_ * np.sin(ang), np.zeros(k_)], 1)
            return np.concatenate([ring + [0, 0, h_ / 2], ring - [0, 0, h_ / 2]])
        if n == 8:
            A = prism(4, 0.2, 0.4) * scale; B = -A
        elif n == 12:
            A = prism(6, 0.25, 0.3) * scale; B = -A
        else:
            st = rng.choice([2.0, 3.0])
            blade = np.array([[0.3, 0.05, 0.1 * st], [0.15, -0.1, -0.07 * st], [0.25, 0.12, 0.02 * st]])
            A = np.concatenate([blade @ np.array([[np.cos(a_), np.sin(a_), 0], [-np.sin(a_), np.cos(a_), 0], [0, 0, 1]]) for a_ in (0, 2 * np.pi / 3, 4 * np.pi / 3)]) * scale
            B = A * np.array([1, 1, -1])
        B = B @ rand_rot(rng)
    elif kind == "smallrot":
        # near-identical structures that differ by a slight rigid drift: the rotation matrix is the identity to within float32 on its
        # diagonal, its off-diagonal elements (~ the angle) are what superpose has to apply
        B = A @ rand_rot_small(rng, rng.choice([2e-5, 1e-4, 2e-4, 4e-4, 2e-3])) + np.array([[rng.gauss(0, 1) for _ in range(3)] for _ in range(n)]) * rng.choice([0, 1e-4])
    else:
        raise ValueError(kind)
    if kind in ("near", "planar") and rng.random() < 0.5:
        B = B @ rand_rot(rng)
    return A, B


def rand_rot_small(rng, ang):
    ax = np.array([rng.gauss(0, 1) for _ in range(3)]); ax /= np.linalg.norm(ax)
    K = np.array([[0, -ax[2], ax[1]], [ax[2], 0, -ax[0]], [-ax[1], ax[0], 0]])
    return np.eye(3) + np.sin(ang) * K + (1 - np.cos(ang)) * K @ K


KINDS = ["rand", "near", "mirror", "planar", "rot", "halfturn", "nearhalf", "smallrot", "symmetric"]


def tol_msd(G_over_n, gaprel, cmax, rm):
    """float32 budget for |msd_impl - msd_min|: coefficient rounding amplified by the relative gap of the two largest eigenvalues,
    plus the float32 rounding of centred coordinates of magnitude cmax"""
    dc = 2.0 ** -21 * max(1.0, cmax)
    return G_over_n * min(3e-3, 4e-6 + 8e-6 / max(gaprel, 1e-9)) + 2 * rm * dc + dc * dc


def run(ctx):
    warnings.filterwarnings("ignore")
    import mdtraj as md
    ctx.rule = ("pairs of conformations {random, near-identical (1e-3..0.1), mirror images, near-planar, exact rigid copies, half turns about random and "
                "coordinate axes (+ noise), near half turns} x 3..250 atoms (thorough: up to 4001; all remainders mod 4) x size 0.05 (a water molecule) .. 4 nm x "
                "centre offsets 0/3/60 nm x 1..4 target frames x reference frame index x atom_indices/ref_atom_indices {none, equal subset, different permuted "
                "subsets} x parallel x precentered; coordinates on a 2^-10 nm grid; non-trivial = distinct (pair, selection) with a non-zero minimum or a rotation")
    ctx.assumptions += ["float32 arithmetic of the kernel: the returned msd is compared with the exact minimum within G/N * min(3e-3, 4e-6 + 8e-6 / relative eigenvalue gap) "
                        "plus the rounding of the centred coordinates; structures whose two largest eigenvalues of K coincide to 1e-3 (collinear, or no unique optimal "
                        "rotation) are compared with the capped tolerance only",
                        "the quartic solver (double-precision Ferrari/Cardano) is not modelled: its result is certified per call by the exact sign pattern",
                        "that the largest root of the characteristic polynomial bounds q'Kq (spectral theorem) and that unit quaternions cover SO(3) are classical results not formalised here; "
                        "the float64 SVD oracle checks the minimum independently"]
    rng = ctx.rng
    seen = {}

    def viol(key, what, rp):
        seen.setdefault(key, (what, rp))

    def T(xyz, n):
        return md.Trajectory(np.array(xyz, dtype=np.float32, copy=True), topo(md, n))
    sizes_q = [3, 4, 5, 6, 7, 8, 9, 10, 11, 13, 17, 30, 61, 128, 250]
    sizes_t = sizes_q + [999, 1002, 4001]
    reqs, meta = [], []
    rreqs, rmeta = [], []
    n_cases = ctx.n(120, 1200)
    for k in range(n_cases):
        kind = KINDS[k % len(KINDS)]
        n = rng.choice(sizes_q if ctx.quick else sizes_t)
        if n > 500 and rng.random() < 0.7:
            n = rng.choice(sizes_q)
        scale = rng.choice([0.05, 0.3, 1.0, 4.0])
        nfr = rng.choice([1, 1, 2, 4])
        nref = rng.choice([1, 3])
        frame = rng.randrange(nref)
        offA = np.array([rng.uniform(-1, 1) for _ in range(3)]) * rng.choice([0, 3, 60])
        offB = np.array([rng.uniform(-1, 1) for _ in range(3)]) * rng.choice([0, 3, 60])
        sel_mode = rng.choice(["none", "none", "same", "diff", "slice"]) if n >= 6 else "none"
        if kind == "smallrot":
            # structures of a few nm near the origin: the drift moves atoms by much more than the float32 spacing of the coordinates
            scale = rng.choice([1.0, 4.0, 4.0])
            offA, offB = offA / 20, offB / 20
            n = max(n, 6)
        big = (k % 40 == 17)                                  # a large system: N * Rg^2 beyond 2e6 nm^2 (lambda^6 beyond the float32 range)
        if big:
            n, scale, sel_mode, nfr, nref, frame = 5000, 25.0, "none", 1, 1, 0
        if kind == "symmetric":
            n, sel_mode, scale = rng.choice([8, 12, 9]), "none", (scale if big else rng.choice([1.0, 4.0]))
            big = False
        # full systems: n_tot atoms; the pair lives on the selected atoms
        extra = rng.choice([0, 2, 5]) if sel_mode != "none" else 0
        if sel_mode == "slice":
            extra = rng.choice([2, 5])
        n_tot = n + extra
        tgt = np.zeros((nfr, n_tot, 3)); ref = np.zeros((nref, n_tot, 3))
        if sel_mode == "none":
            ai = ri = None
            selA = selB = np.arange(n)
        elif sel_mode == "same":
            ai = np.array(rng.sample(range(n_tot), n)); ri = None
            selA = selB = ai
        elif sel_mode == "slice":                             # the selection handed to superpose as a slice object (a view, not a copy)
            a0 = rng.choice([0, rng.randrange(extra + 1)])
            ai = np.arange(a0, a0 + n); ri = None
            selA = selB = ai
        else:
            ai = np.array(rng.sample(range(n_tot), n)); ri = np.array(rng.sample(range(n_tot), n))
            selA, selB = ai, ri
        for f in range(nfr):
            A, B = make_pair(rng, n, scale, kind)
            junk = np.array([[rng.gauss(0, 1) for _ in range(3)] for _ in range(n_tot)]) * scale
            tgt[f] = junk; tgt[f, selA] = A
            if f == 0:
                for g in range(nref):
                    ref[g] = np.array([[rng.gauss(0, 1) for _ in range(3)] for _ in range(n_tot)]) * scale
                ref[frame, selB] = B
                B0 = B
            else:
                # later target frames: perturbations/rotations of the same reference structure
                Af = B0 @ rand_rot(rng) + np.array([[rng.gauss(0, 1) for _ in range(3)] for _ in range(n)]) * scale * rng.choice([0, 1e-2, 0.3])
                tgt[f, selA] = Af
        tgt = q10(tgt + offA).astype(np.float32); ref = q10(ref + offB).astype(np.float32)
        par = rng.random() < 0.5
        kw = dict(frame=frame, atom_indices=ai, ref_atom_indices=ri)
        desc = dict(kind=kind, n_atoms=n, n_total=n_tot, scale=scale, frames=nfr, ref_frames=nref, frame=frame, selection=sel_mode, parallel=par,
                    offsets=[float(np.abs(offA).max()), float(np.abs(offB).max())])
        rp = dict(desc, target=tgt.tolist() if n_tot <= 40 else None, reference=ref.tolist() if n_tot <= 40 else None,
                  atom_indices=None if ai is None else ai.tolist(), ref_atom_indices=None if ri is None else ri.tolist(), seed=ctx.seed, case=k)
        try:
            r = np.array(md.rmsd(T(tgt, n_tot), T(ref, n_tot), parallel=par, **kw), dtype=np.float64)
            r_other = np.array(md.rmsd(T(tgt, n_tot), T(ref, n_tot), parallel=not par, **kw), dtype=np.float64)
        except Exception as e:
            viol("rmsd|raises|" + sel_mode, "md.rmsd raised %s: %s" % (type(e).__name__, e), rp)
            continue
        ctx.count("rmsd calls")
        ctx.count("kind:" + kind)
        ctx.count("selection:" + sel_mode)
        ctx.count("atoms mod 4 = %d" % (n % 4))
        if not np.array_equal(r, r_other):
            viol("rmsd|parallel-flag", "md.rmsd differs between parallel=True and parallel=False: %s vs %s" % (r, r_other), rp)
        # selections == the same call on atom-sliced trajectories
        if sel_mode != "none":
            r_sl = np.array(md.rmsd(T(tgt[:, selA], n), T(ref[:, selB], n), frame=frame), dtype=np.float64)
            if not np.allclose(r, r_sl, rtol=0, atol=1e-6 * scale + 1e-7):
                viol("rmsd|selection|" + sel_mode, "md.rmsd with %s selections %s differs from the same call on the selected atoms %s" % (sel_mode, r, r_sl), rp)
        # precentered
        if sel_mode == "none" and rng.random() < 0.5:
            ta, tb = T(tgt, n_tot), T(ref, n_tot)
            ta.center_coordinates(); tb.center_coordinates()
            r_pc = np.array(md.rmsd(ta, tb, frame=frame, precentered=True), dtype=np.float64)
            ctx.count("precentered calls")
            # coordinates edited in place through the array that .xyz hands out (the documented hazard), then centred again as the
            # docstring of md.rmsd tells the user to: the precentered result must be that of the coordinates as they are now
            ta.xyz[:, : max(1, n_tot // 2)] += np.float32(0.75) * scale
            ta.center_coordinates()
            r_re = np.array(md.rmsd(ta, tb, frame=frame, precentered=True), dtype=np.float64)
            ctx.count("precentered calls after an in-place edit and re-centring")
            for f in range(nfr):
                Ae = np.array(ta.xyz[f], dtype=np.float64); Be = np.array(tb.xyz[frame], dtype=np.float64)
                m_e, Ga_e, Gb_e, lam_e, gap_e, _, _ = kabsch(Ae, Be)
                tol_e = tol_msd((Ga_e + Gb_e) / n_tot, gap_e / max(lam_e, 1e-30), float(max(np.abs(Ae).max(), np.abs(Be).max())), np.sqrt(max(m_e, 0)))
                if abs(r_re[f] ** 2 - m_e) > 4 * tol_e:
                    viol("rmsd|precentered|after-inplace-edit", "center_coordinates(); edit through .xyz; center_coordinates(); rmsd(precentered=True) = %.6g, the minimum for the current coordinates is %.6g" % (
                        r_re[f], np.sqrt(max(m_e, 0))), rp)
                    break
        else:
            r_pc = None
        # superpose
        ts = T(tgt, n_tot); tr = T(ref, n_tot)
        ts.time = np.arange(nfr) * 2.0
        try:
            ret = ts.superpose(tr, frame=frame, atom_indices=slice(int(ai[0]), int(ai[-1]) + 1) if sel_mode == "slice" else ai, ref_atom_indices=ri, parallel=par)
            sup = np.array(ts.xyz, dtype=np.float64)
        except Exception as e:
            viol("superpose|raises|" + sel_mode, "superpose raised %s: %s" % (type(e).__name__, e), rp)
            sup = None
        if sup is not None:
            if ret is not ts:
                viol("superpose|return", "superpose does not return self", rp)
            if not np.array_equal(tr.xyz, ref):
                viol("superpose|reference-modified", "superpose modified the reference trajectory", rp)
        for f in range(nfr):
            A = tgt[f, selA].astype(np.float64); B = ref[frame, selB].astype(np.float64)
            m, Ga, Gb, lam, gap, S, Rk = kabsch(A, B)
            G = (Ga + Gb) / 2 / n
            gaprel = gap / max(lam, 1e-30)
            cmax = float(max(np.abs(A).max(), np.abs(B).max()))
            rm = np.sqrt(m)
            tol = tol_msd(2 * G, gaprel, cmax, rm)
            degenerate = gaprel < 1e-3
            ctx.count("degenerate (eigenvalue gap < 1e-3)" if degenerate else "well separated")
            nontriv = (k, f) if (m > 1e-12 or kind in ("rot", "halfturn", "nearhalf", "smallrot")) else None
            ctx.case(desc if len(ctx.samples) < 5 else None, nontriv)
            if abs(r[f] ** 2 - m) > tol:
                viol("rmsd|not-minimal|%s|%s" % (kind, sel_mode), "md.rmsd = %.7g but the minimum over rotations and translations is %.7g (n=%d, %s, frame %d; msd difference %.3g > budget %.3g)" % (
                    r[f], rm, n, kind, f, abs(r[f] ** 2 - m), tol), rp)
            if r_pc is not None and abs(r_pc[f] ** 2 - m) > tol:
                viol("rmsd|precentered", "md.rmsd(precentered=True) = %.7g but the minimum is %.7g" % (r_pc[f], rm), rp)
            # model certificate
            coords = " ".join(rat(x) for x in tgt[f, selA].ravel()) + " " + " ".join(rat(x) for x in ref[frame, selB].ravel())
            if n <= 300 or (n <= 5000 and rng.random() < 0.3):
                reqs.append("qcp %d %s %s %s" % (n, rat(r[f] ** 2), rat(max(tol, 1e-12) * n / 2), coords))
                # the lower half of the certificate (P(lo) <= 0) says something only while the budget interval, tol * n / 2 in units of lambda, stays
                # clear of the second root, i.e. of the eigenvalue gap
                meta.append((k, f, dict(desc, _dbg="gaprel=%.3g tol=%.3g gap=%.4g" % (gaprel, tol, gap)), rp, r[f], rm, gaprel < 4e-3 or max(tol, 1e-12) * n / 2 >= 0.8 * gap))
            # superpose checks
            if sup is not None:
                X0 = tgt[f].astype(np.float64); X1 = sup[f]
                # rigid + proper: best affine fit X1 ~ (X0 - c0) L + c1
                c0, c1 = X0.mean(0), X1.mean(0)
                P0, P1 = X0 - c0, X1 - c1
                size = max(1e-9, np.sqrt((P0 * P0).sum(1).mean()))
                coord_eps = 2.0 ** -21 * max(1.0, float(np.abs(X0).max()), float(np.abs(X1).max()))
                sub = rng.sample(range(n_tot), min(n_tot, 25))
                d0 = np.linalg.norm(X0[sub][:, None] - X0[sub][None], axis=-1); d1 = np.linalg.norm(X1[sub][:, None] - X1[sub][None], axis=-1)
                if np.abs(d0 - d1).max() > 4 * coord_eps + 2e-6 * size:
                    viol("superpose|not-rigid|" + sel_mode, "superpose changed interatomic distances by up to %.3g nm (n=%d, %s)" % (np.abs(d0 - d1).max(), n, kind), rp)
                H = P0.T @ P1
                sv = np.linalg.svd(H, compute_uv=False)
                if sv[2] > 1e-3 * sv[0] and np.linalg.det(H) < 0:
                    viol("superpose|improper", "superpose applied an improper rotation (mirror image) (n=%d, %s)" % (n, kind), rp)
                # attains the minimum on the alignment atoms, measured without fitting
                after = np.sqrt(((X1[selA] - ref[frame, selB].astype(np.float64)) ** 2).sum(1).mean())
                ctx.count("superposed frames")
                # at the optimum the deviation is stationary in the rotation: an error e of the rotation angle costs ~ e^2 * G. For the slight
                # rigid drifts the budget is that of the float32 rotation matrix and coordinates, not the (much wider) one of the QCP value
                lim = (2 * G * 1e-10 + 16 * coord_eps ** 2) if (kind == "smallrot" and not degenerate) else 4 * tol
                if after ** 2 - m > lim + 8 * after * coord_eps:
                    hk = "half-turn" if kind in ("halfturn", "nearhalf") else kind
                    viol("superpose|not-optimal|%s|%s|size-%g" % (hk, sel_mode, scale) if scale < 0.1 else "superpose|not-optimal|%s|%s" % (hk, sel_mode),
                         "after superpose the alignment atoms are %.6g nm (rms) from the reference, the minimum is %.6g (n=%d, size %g nm, %s, frame %d)" % (after, rm, n, scale, kind, f), rp)
                # model rotation
                # (the rotation itself is compared only where it is determined: with the two largest eigenvalues closer than 1 % every rotation
                # in their plane is optimal to within the budget, and the adjugate construction of the kernel and the model's power iteration may
                # pick different ones; optimality of what superpose attains is checked above for every case)
                if n <= 64 and not degenerate and gaprel >= 1e-2:
                    rreqs.append("qrot %d %s %s" % (n, rat(lam), coords))
                    desc = dict(desc, _gaprel=float(gaprel), _size=float(size))
                    rmeta.append((k, f, desc, rp, X0, X1, selA, ref[frame, selB].astype(np.float64), size, coord_eps + 2e-5 * size / max(gaprel, 1e-3)))     # the eigenvector (rotation) error grows like 1 / gap
        if sup is not None and (not np.array_equal(ts.time, np.arange(nfr) * 2.0)):
            viol("superpose|time", "superpose changed the time stamps", rp)
        # zero against itself, symmetry, rigid motion
        if k % 3 == 0:
            for f in range(min(nfr, 2)):
                z = float(md.rmsd(T(tgt, n_tot), T(tgt, n_tot), frame=f, atom_indices=ai)[f])
                A = tgt[f, selA].astype(np.float64)
                m0, Ga, Gb, lam, gap, S, _ = kabsch(A, A)
                tz = tol_msd((Ga + Gb) / n, gap / max(lam, 1e-30), float(np.abs(A).max()), 0.0)
                ctx.count("self rmsd")
                if z * z > tz:
                    viol("rmsd|self-nonzero", "md.rmsd of a frame against itself is %.6g (budget %.3g) (n=%d, size %g)" % (z, np.sqrt(tz), n, scale), rp)
            if ri is None:
                a1 = float(md.rmsd(T(tgt[:1], n_tot), T(ref[frame:frame + 1], n_tot), atom_indices=ai)[0])
                a2 = float(md.rmsd(T(ref[frame:frame + 1], n_tot), T(tgt[:1], n_tot), atom_indices=ai)[0])
                A = tgt[0, selA].astype(np.float64); B = ref[frame, selB].astype(np.float64)
                m, Ga, Gb, lam, gap, S, _ = kabsch(A, B)
                tl = tol_msd((Ga + Gb) / n, gap / max(lam, 1e-30), float(max(np.abs(A).max(), np.abs(B).max())), np.sqrt(m))
                ctx.count("symmetry pairs")
                if abs(a1 * a1 - a2 * a2) > 2 * tl:
                    viol("rmsd|asymmetric", "rmsd(a, b) = %.7g but rmsd(b, a) = %.7g" % (a1, a2), rp)
                # rigid motion of the target
                Rm = rand_rot(rng); sh = np.array([rng.uniform(-5, 5) for _ in range(3)])
                moved = (tgt[:1].astype(np.float64) @ Rm + sh).astype(np.float32)
                a3 = float(md.rmsd(T(moved, n_tot), T(ref[frame:frame + 1], n_tot), atom_indices=ai)[0])
                cm = float(np.abs(moved).max())
                ctx.count("rigid motions")
                if abs(a3 * a3 - a1 * a1) > 2 * tl + 4 * (np.sqrt(m) + 1e-3 * scale) * 2.0 ** -21 * max(1.0, cm, float(np.abs(tgt).max())) * 4:
                    viol("rmsd|rigid-motion", "rmsd changes from %.7g to %.7g when the target is rotated and translated" % (a1, a3), rp)
        # rmsf against its definition (reference given: superpose every frame on it, fluctuation about the mean)
        if k % 4 == 1 and nfr >= 2 and ri is None:
            try:
                got = np.array(md.rmsf(T(tgt, n_tot), T(ref, n_tot), frame, atom_indices=ai, parallel=par), dtype=np.float64)
                al = []
                for f in range(nfr):
                    A = tgt[f, selA].astype(np.float64); B = ref[frame, selB].astype(np.float64)
                    Rk = kabsch(A, B)[6]
                    al.append((A - A.mean(0)) @ Rk)
                al = np.array(al)
                want = np.sqrt(((al - al.mean(0)) ** 2).sum(-1).mean(0))
                ctx.count("rmsf calls")
                gaps = [kabsch(tgt[f, selA].astype(np.float64), ref[frame, selB].astype(np.float64))[4] / max(1e-30, kabsch(tgt[f, selA].astype(np.float64), ref[frame, selB].astype(np.float64))[3]) for f in range(nfr)]
                if min(gaps) > 0.05 and np.abs(got - want).max() > 2e-3 * scale + 1e-4 * float(np.abs(tgt).max()):
                    viol("rmsf|value|%s" % ("atom_indices" if ai is not None else "all-atoms"),
                         "md.rmsf differs from the fluctuation after optimal superposition on the reference by %.4g nm (n=%d, %s selection, target centre offset %.3g)" % (
                             np.abs(got - want).max(), n, sel_mode, np.abs(offA).max()), rp)
            except Exception as e:
                viol("rmsf|raises", "md.rmsf raised %s: %s" % (type(e).__name__, e), rp)

    # ---- model: root certificates
    model = ctx.driver.query(reqs) if ctx.driver_ok and reqs else [None] * len(reqs)
    for (k, f, desc, rp, rimpl, rm, degenerate), m in zip(meta, model):
        if m is None:
            continue
        ctx.count("root certificates")
        parts = m.split()
        if parts[0] != "G":
            ctx.broke("driver:qcp", m)
            break
        s = parts[parts.index("S") + 1:parts.index("S") + 6]
        # with a relative eigenvalue gap below 4e-3 the budget interval can reach below the second root, where P is positive again:
        # only the upper half of the certificate (no root above hi) is decisive there
        if degenerate:
            ctx.count("upper-only certificates (eigenvalue gap below the budget)")
        ok = (degenerate or s[0] in "-0") and s[1] == "+" and s[2] in "+0" and s[3] in "+0" and s[4] in "+0"
        if not ok:
            ctx.broke("correspondence:qcp-root", "case %d frame %d (%s, n=%d): rmsd %.7g (oracle %.7g) is not within the budget of the largest root of the model's polynomial: signs P(lo),P(hi),P'(hi),P''(hi),hi = %s [%s]" % (
                k, f, desc["kind"], desc["n_atoms"], rimpl, rm, " ".join(s), desc.get("_dbg")))
    # ---- a selection without atoms (an empty top.select(...) result): superpose refuses it, or at least leaves finite coordinates
    tq_ = md.Trajectory(np.random.RandomState(ctx.seed).rand(3, 6, 3).astype(np.float32), None)
    for empty_ in ([], np.array([], dtype=int)):
        cq_ = md.Trajectory(tq_.xyz.copy(), None)
        ctx.case(None, ("empty-selection", type(empty_).__name__)); ctx.count("superpose calls with an empty selection")
        try:
            cq_.superpose(tq_, 0, atom_indices=empty_)
            if not np.isfinite(cq_.xyz).all():
                viol("superpose|empty-selection", "superpose(atom_indices=%r) returns and leaves %d of %d coordinates NaN" % (empty_, int((~np.isfinite(cq_.xyz)).sum()), cq_.xyz.size), dict(atom_indices=[]))
        except (ValueError, IndexError, TypeError):
            pass
    # ---- model: rotation
    model = ctx.driver.query(rreqs) if ctx.driver_ok and rreqs else [None] * len(rreqs)
    for (k, f, desc, rp, X0, X1, selA, Bsel, size, coord_eps), m in zip(rmeta, model):
        if m is None:
            continue
        parts = m.split()
        if parts[0] != "R":
            ctx.broke("driver:qrot", m)
            break
        Rm = np.array([float(Fraction(x)) for x in parts[1:10]]).reshape(3, 3)
        N = float(Fraction(parts[11])); conv = parts[13] == "1"
        if not conv or N <= 0:
            ctx.count("model rotation unconverged (skipped)")
            continue
        Rm = Rm / N
        cA = X0[selA].mean(0); cB = Bsel.mean(0)
        pred = (X0 - cA) @ Rm + cB
        ctx.count("model rotations compared")
        err = np.abs(pred - X1).max()
        if err > 5e-3 * size + 8 * coord_eps:
            ctx.broke("correspondence:qrot", "case %d frame %d (%s, n=%d): superposed coordinates differ from the model rotation by %.4g nm [relative eigenvalue gap %.3g, size %.3g]" % (k, f, desc["kind"], desc["n_atoms"], err, desc.get("_gaprel", -1), desc.get("_size", -1)))
    for key, (what, rp) in seen.items():
        ctx.violation(key, what, rp)


def replay(ctx, path):
    print(json.load(open(path))["what"])
    return 1
