"""C15: secondary-structure codes follow the DSSP rules on the backbone hydrogen bonds.
Theorems (Properties/C15.lean): bridge test symmetric; the START/END/MIDDLE flag bookkeeping is exactly the declarative n-turn; inside-a-turn
specification; turn/bend pass specification; minimal alpha-helix specification; incomplete residues are never bridge partners; one code per
residue, "NA" exactly for incomplete residues, fixed simplified image (re-checked against dssp.py's table).
Correspondence: (a) the static DSSP stages of dssp.cpp driven through a C shim with arbitrary hydrogen-bond tables (helix ladders of stride 3/4/5,
parallel and antiparallel ladders with bulges, bridges across chain boundaries, incomplete residues, noise) vs the Lean transcription, code by code;
(b) md.compute_dssp on real and perturbed structures vs the model fed with the bonds md.kabsch_sander reports.
Oracle (independent of the model, from the published rules): n-turns, minimal helices H with G/I priority, turns and bends, bridge partners
must be E/B (or overridden by H/I), B only for isolated bridges, E only near bridge partners; shape, 'NA', simplified image."""
import ctypes
import json
import os
import warnings

import numpy as np

import shim


def kappa_bits(CA, chain, skip, n):
    """(bits, unsure) - angle at i between CA[i-2]-CA[i] and CA[i]-CA[i+2] above 70 degrees"""
    bits, unsure = [False] * n, [False] * n
    for i in range(2, n - 2):
        if chain[i - 2] == chain[i + 2] and not (skip[i - 2] or skip[i] or skip[i + 2]):
            u = CA[i - 2] - CA[i]; v = CA[i] - CA[i + 2]
            den = np.sqrt((u @ u) * (v @ v))
            if den == 0:
                unsure[i] = True
                continue
            k = np.degrees(np.arccos(np.clip(u @ v / den, -1, 1)))
            bits[i] = k > 70
            unsure[i] = abs(k - 70) < 0.05
    return bits, unsure


def gen_table(rng, n, chain, skip):
    """hydrogen-bond table donor -> [acceptors] (<= 2), built from secondary-structure motifs plus noise"""
    hb = {i: [] for i in range(n)}

    def add(d, a):
        if 0 <= d < n and 0 <= a < n and d != a and d != a + 1 and not skip[d] and not skip[a] and a not in hb[d] and len(hb[d]) < 2:
            hb[d].append(a)
    for _ in range(rng.randrange(0, 5)):
        kind = rng.choice(["h3", "h4", "h4", "h5", "anti", "para", "noise", "anti-bulge", "para-bulge"])
        if kind in ("h3", "h4", "h5"):
            s = int(kind[1]); st = rng.randrange(0, max(1, n - s)); ln = rng.randrange(1, 8)
            for i in range(st, min(n - s, st + ln)):
                if rng.random() < 0.9:
                    add(i + s, i)
        elif kind.startswith("anti"):
            i0 = rng.randrange(1, max(2, n // 2)); j0 = rng.randrange(min(n - 2, i0 + 4), n - 1) if i0 + 4 < n - 1 else n - 2
            ln = rng.randrange(1, 6)
            i, j = i0, j0
            for k in range(ln):
                if i + 1 >= j - 1:
                    break
                if rng.random() < 0.5:
                    add(i, j); add(j, i)                       # Hbond(i->j) and Hbond(j->i)
                else:
                    add(i + 1, j - 1); add(j + 1, i - 1)       # Hbond(j-1->i+1), Hbond(i-1->j+1)
                step_i = rng.choice([1, 1, 2, 3, 5, 6]) if kind.endswith("bulge") else 1
                step_j = rng.choice([1, 1, 2, 3, 4, 5, 6]) if kind.endswith("bulge") else 1
                i += step_i; j -= step_j
        elif kind.startswith("para"):
            i0 = rng.randrange(1, max(2, n // 2)); j0 = rng.randrange(min(n - 2, i0 + 4), n - 1) if i0 + 4 < n - 1 else n - 2
            ln = rng.randrange(1, 6)
            i, j = i0, j0
            for k in range(ln):
                if j + 1 >= n:
                    break
                if rng.random() < 0.5:
                    add(i + 1, j); add(j, i - 1)               # Hbond(j->i+1), Hbond(i-1->j)
                else:
                    add(j + 1, i); add(i, j - 1)
                i += rng.choice([1, 1, 2, 3, 5, 6]) if kind.endswith("bulge") else 1
                j += rng.choice([1, 1, 2, 3, 4, 5, 6]) if kind.endswith("bulge") else 1
        else:
            for _ in range(rng.randrange(1, 6)):
                add(rng.randrange(n), rng.randrange(n))
    return hb


def turn(hb, chain, n, s, i):
    return i + s < n and i >= 0 and i in hb.get(i + s, []) and chain[i] == chain[i + s]


def bridge_type(hb, chain, n, i, j):
    B = lambda d, a: 0 <= d < n and a in hb.get(d, [])
    if not (i >= 1 and i + 1 < n and chain[i - 1] == chain[i + 1] and j >= 1 and j + 1 < n and chain[j - 1] == chain[j + 1]):
        return None
    if (B(i + 1, j) and B(j, i - 1)) or (B(j + 1, i) and B(i, j - 1)):
        return "P"
    if (B(i + 1, j - 1) and B(j + 1, i - 1)) or (B(j, i) and B(i, j)):
        return "A"
    return None


def declarative(codes, hb, chain, skip, kbits, kunsure, n):
    """necessary conditions from the published rules; returns a description of the first violation or None"""
    t = {s: [turn(hb, chain, n, s, i) for i in range(n)] for s in (3, 4, 5)}
    H = [False] * n
    for i in range(1, n - 4):
        if t[4][i] and t[4][i - 1]:
            for j in range(i, i + 4):
                H[j] = True
    for j in range(n):
        if skip[j]:
            continue
        if H[j] and codes[j] not in ("H", "I"):
            return "residue %d lies in a minimal alpha helix (consecutive 4-turns) but has code %r" % (j, codes[j])
        if codes[j] == "H" and not H[j]:
            return "residue %d has code H without two consecutive 4-turns covering it" % j
    inturn = [any(1 <= k <= i and t[s][i - k] for s in (3, 4, 5) for k in range(1, s)) for i in range(n)]
    for i in range(n):
        if skip[i]:
            continue
        c = codes[i]
        if c == "T" and not (inturn[i] and 1 <= i < n - 1):
            return "residue %d has code T but no n-turn starts 1..n-1 residues before it" % i
        if c in (" ", "S") and inturn[i] and 1 <= i < n - 1:
            return "residue %d is inside an n-turn but has code %r" % (i, c)
        if c == "S" and not (kbits[i] or kunsure[i]):
            return "residue %d has code S but its C-alpha bend angle is below 70 degrees (or undefined)" % i
        if c == " " and kbits[i] and not kunsure[i] and 1 <= i < n - 1:
            return "residue %d has a C-alpha bend above 70 degrees and no other assignment but code ' '" % i
        if c == "G":
            pass
    # helix priority: a minimal pi helix overrides alpha; a minimal 3-10 helix only fills loops
    for a in range(1, n - 5):
        if t[5][a] and t[5][a - 1] and not any(skip[a:a + 5]):
            seg = codes[a:a + 5]
            if not any(c in ("E", "B", "G") for c in seg) and any(c != "I" for c in seg):
                return "residues %d-%d form a minimal pi helix over loop/alpha residues but have codes %r instead of I" % (a, a + 4, "".join(seg))
    for a in range(1, n - 3):
        if t[3][a] and t[3][a - 1] and not any(skip[a:a + 3]):
            seg = codes[a:a + 3]
            if not any(c in ("H", "E", "B", "I") for c in seg) and any(c != "G" for c in seg):
                return "residues %d-%d form a minimal 3-10 helix over loop residues but have codes %r instead of G" % (a, a + 2, "".join(seg))
    for i in range(n):
        if skip[i]:
            continue
        c = codes[i]
        if c == "G":
            if not any(t[3][a] and t[3][a - 1] and a <= i <= a + 2 for a in range(1, n - 3)):
                return "residue %d has code G outside any minimal 3-10 helix" % i
        if c == "I":
            if not any(t[5][a] and t[5][a - 1] and a <= i <= a + 4 for a in range(1, n - 5)):
                return "residue %d has code I outside any minimal pi helix" % i
    # bridges
    partners = {}
    for i in range(1, n - 4):
        for j in range(i + 3, n - 1):
            if skip[i] or skip[j]:
                continue
            bt = bridge_type(hb, chain, n, j, i)
            if bt:
                partners.setdefault(i, []).append((j, bt)); partners.setdefault(j, []).append((i, bt))
    for r, ps in partners.items():
        if codes[r] not in ("E", "B", "H", "I"):
            return "residue %d forms a %s bridge with residue %d but has code %r" % (r, "parallel" if ps[0][1] == "P" else "antiparallel", ps[0][0], codes[r])
        ladder = False
        for (q, bt) in ps:
            for dr in (-1, 1):
                q2 = q + dr if bt == "P" else q - dr
                if any(x == q2 and b2 == bt for (x, b2) in partners.get(r + dr, [])):
                    ladder = True
        if ladder and codes[r] == "B":
            return "residue %d is part of a ladder of two consecutive bridges but has code B" % r
    # bulge-linked ladders (published rule: at most one extra residue on one strand and at most four on the other): applied only to clean
    # situations - b1 ends its run of consecutive bridges, b2 starts its run, no other bridge partner inside either gap
    blist = sorted({(min(r, q), max(r, q), bt) for r, ps in partners.items() for (q, bt) in ps})
    bset = set(blist)
    allp = set(partners)
    for (i1, j1, T) in blist:
        nxt = (i1 + 1, j1 + 1, T) if T == "P" else (i1 + 1, j1 - 1, T)
        if nxt in bset:
            continue
        for (i2, j2, T2) in blist:
            if T2 != T or i2 <= i1:
                continue
            prv = (i2 - 1, j2 - 1, T) if T == "P" else (i2 - 1, j2 + 1, T)
            if prv in bset:
                continue
            gi = i2 - i1
            gj = (j2 - j1) if T == "P" else (j1 - j2)
            if gi < 1 or gj < 1 or gi >= 6 or not ((gj < 6 and gi < 3) or gj < 3):
                continue
            jl, jh = min(j1, j2), max(j1, j2)
            if i2 >= jl:
                continue                      # the two strands would overlap
            if chain[i1] != chain[i2] or chain[jl] != chain[jh]:
                continue
            inner = set(range(i1 + 1, i2)) | set(range(jl + 1, jh))
            if inner & allp or any(skip[x] for x in inner):
                continue
            # every residue of both strands between the two bridges belongs to the sheet
            for x in sorted(inner | {i1, i2, jl, jh}):
                if codes[x] not in ("E", "H", "I"):
                    return "residue %d lies between the %s bridges %d-%d and %d-%d, which are linked by a bulge (gaps %d and %d), but has code %r" % (
                        x, "parallel" if T == "P" else "antiparallel", i1, j1, i2, j2, gi, gj, codes[x])
    pk = sorted(partners)
    for r in range(n):
        if skip[r]:
            continue
        if codes[r] == "B" and r not in partners:
            return "residue %d has code B without a bridge partner" % r
        if codes[r] == "E" and r not in partners:
            lo = [p for p in pk if p < r]; hi = [p for p in pk if p > r]
            if not lo or not hi or hi[0] - lo[-1] > 5:
                return "residue %d has code E but is neither a bridge partner nor inside a bulge between partners" % r
    return None


def run(ctx):
    warnings.filterwarnings("ignore")
    import mdtraj as md
    ctx.rule = ("hydrogen-bond tables built from motifs (3/4/5-turn ladders with gaps, parallel and antiparallel ladders with bulges of 1-3 residues, noise) over 6..40 residues in "
                "1..3 chains with incomplete residues and random C-alpha traces, driven through the static stages of dssp.cpp; md.compute_dssp on 2EQQ (NMR models), bpti, "
                "1am7 fragments and perturbed / randomised / multi-chain / truncated variants with waters interleaved, simplified in {True, False}; non-trivial = distinct "
                "(table or structure, frame) with at least one non-loop code")
    ctx.assumptions += ["C-alpha bend angles within 0.05 degrees of 70 are excluded (S vs ' ' undecided there)",
                        "std::sort of the bridge list is modelled by a stable sort: tables with more than 15 bridges, two of which start at the same residue of one chain, are compared through the oracle only"]
    rng = ctx.rng
    seen = {}

    def viol(key, what, rp):
        seen.setdefault(key, (what, rp))
    reqs, meta = [], []
    lib, err = shim.build("dssp")
    if lib is None:
        ctx.broke("shim:dssp", err)
    # ---------------- (a) static stages with arbitrary tables
    if lib is not None:
        for k in range(ctx.n(250, 3000)):
            n = rng.choice([6, 8, 10, 12, 16, 20, 28, 40])
            nch = rng.choice([1, 1, 2, 3])
            cuts = sorted(rng.sample(range(1, n), nch - 1)) if nch > 1 else []
            chain = [sum(1 for c in cuts if i >= c) for i in range(n)]
            skip = [rng.random() < 0.08 for _ in range(n)]
            hb = gen_table(rng, n, chain, skip)
            while True:
                CA = np.cumsum(np.array([[rng.gauss(0, 1) for _ in range(3)] for _ in range(n)]) * 0.22, axis=0).astype(np.float32)
                kb, ku = kappa_bits(CA.astype(np.float64), chain, skip, n)
                if not any(ku):
                    break
            hbarr = np.full((n, 2), -1, dtype=np.int32)
            for d, accs in hb.items():
                for s_, a in enumerate(accs):
                    hbarr[d, s_] = a
            out = ctypes.create_string_buffer(n)
            xyz = np.ascontiguousarray(CA, dtype=np.float32)
            ca_idx = np.arange(n, dtype=np.int32)
            ch = np.array(chain, dtype=np.int32); sk = np.array(skip, dtype=np.int32)
            lib.shim_dssp_from_hbonds(xyz.ctypes.data_as(ctypes.c_void_p), ca_idx.ctypes.data_as(ctypes.c_void_p), ch.ctypes.data_as(ctypes.c_void_p),
                                      hbarr.ctypes.data_as(ctypes.c_void_p), sk.ctypes.data_as(ctypes.c_void_p), n, n, out)
            codes = [c for c in out.raw.decode()]
            ctx.count("tables driven through the static DSSP stages")
            ctx.case(dict(n_residues=n, chains=nch, bonds=sum(len(v) for v in hb.values())) if len(ctx.samples) < 4 else None, (k, "table") if any(c != " " for c in codes) else None)
            for c in set(codes):
                ctx.count("code '%s' seen" % c)
            rp = dict(kind="hbond-table", n_residues=n, chain_ids=chain, skip=[int(x) for x in skip], hbonds={str(d): a for d, a in hb.items() if a}, ca=CA.tolist(), codes="".join(codes))
            bad = declarative(codes, hb, chain, skip, kb, ku, n)
            if bad:
                viol("stages|" + bad.split(" has ")[-1].split(" but ")[0][:40], "DSSP stages on a hydrogen-bond table: %s (codes %r)" % (bad, "".join(codes)), rp)
            bonds = ",".join("%d-%d" % (d, a) for d, accs in hb.items() for a in accs) or "-"
            reqs.append("dssp %d 0 %s %s %s %s" % (n, ",".join(map(str, chain)), "".join("1" if s_ else "0" for s_ in skip), "".join("1" if b else "0" for b in kb), bonds))
            # the shim does not overlay NA: compare the raw codes of complete residues
            meta.append(("table", k, rp, codes, skip))

    # ---------------- (b) the API on structures
    data = os.path.join("/repo", "tests", "data")
    base = [md.load(os.path.join(data, "2EQQ.pdb")), md.load(os.path.join(data, "bpti.pdb")), md.load(os.path.join(data, "1am7_protein.pdb"))]
    for k in range(ctx.n(24, 160)):
        b = base[rng.randrange(len(base))]
        fr = sorted(rng.sample(range(b.n_frames), min(b.n_frames, rng.choice([1, 2, 4]))))
        nres = b.n_residues
        r0 = rng.randrange(0, max(1, nres - 20)); r1 = min(nres, r0 + rng.randrange(12, 60))
        keep = [a.index for a in b.topology.atoms if r0 <= a.residue.index < r1]
        for _ in range(rng.choice([0, 0, 1, 3])):
            rr = rng.randrange(r0, r1); nm = rng.choice(["O", "N", "CA", "C"])
            keep = [i for i in keep if not (b.topology.atom(i).residue.index == rr and b.topology.atom(i).name == nm)]
        t = b[fr].atom_slice(keep)
        noise = rng.choice([0, 0, 0.01, 0.03, 0.1])
        t.xyz = t.xyz + np.array([[[rng.gauss(0, 1) for _ in range(3)] for _ in range(t.n_atoms)] for _ in fr], dtype=np.float32) * noise
        if rng.random() < 0.3:
            # two copies as two chains, the second displaced: bridges across chains become possible
            t2 = md.Trajectory(t.xyz + np.array([0.48, 0.1, 0.0], dtype=np.float32), t.topology)
            t = t.stack(t2)
        top = t.topology
        n = top.n_residues
        desc = dict(source="structure", n_residues=n, frames=t.n_frames, noise=noise, chains=top.n_chains)
        rp0 = dict(desc, seed=ctx.seed, case=k, residues=[r.name for r in top.residues], atoms=[[a.name for a in r.atoms] for r in top.residues] if n <= 40 else None,
                   xyz=t.xyz.tolist() if t.n_atoms <= 150 else None)
        try:
            full = md.compute_dssp(t, simplified=False)
            simp = md.compute_dssp(t, simplified=True)
            ks = md.kabsch_sander(t)
        except Exception as e:
            viol("api|raises", "compute_dssp raised %s: %s" % (type(e).__name__, e), rp0)
            continue
        ctx.count("compute_dssp calls")
        chain = [r.chain.index for r in top.residues]
        skip = []
        ca_idx = []
        for r in top.residues:
            names = [a.name for a in r.atoms]
            skip.append(not all(x in names for x in ("N", "CA", "C", "O")))
            ca_idx.append(next((a.index for a in r.atoms if a.name == "CA"), -1))
        if full.shape != (t.n_frames, n) or simp.shape != (t.n_frames, n):
            viol("api|shape", "compute_dssp returns shape %s for %d frames x %d residues" % (full.shape, t.n_frames, n), rp0)
            continue
        table = str.maketrans("HGIEBTS ", "HHHEECCC")
        for f in range(t.n_frames):
            codes = list(full[f])
            for i in range(n):
                if skip[i] != (codes[i] == "NA") or skip[i] != (simp[f][i] == "NA"):
                    viol("api|na", "residue %d (%s): complete backbone = %s but codes %r / %r" % (i, top.residue(i).name, not skip[i], codes[i], simp[f][i]), rp0)
                    break
                if not skip[i] and (len(codes[i]) != 1 or codes[i] not in "HGIEBTS " or simp[f][i] != codes[i].translate(table)):
                    viol("api|alphabet", "residue %d: full code %r, simplified code %r" % (i, codes[i], simp[f][i]), rp0)
                    break
            M = ks[f].toarray()
            hb = {i: [] for i in range(n)}
            for a, d in zip(*np.nonzero(M)):
                hb[int(d)].append(int(a))
            CA = np.array([t.xyz[f, c] if c >= 0 else np.zeros(3) for c in ca_idx], dtype=np.float64)
            kb, ku = kappa_bits(CA, chain, skip, n)
            ctx.case(desc if len(ctx.samples) < 6 else None, (k, f) if any(c not in (" ", "NA") for c in codes) else None)
            for c in set(codes):
                ctx.count("code '%s' seen" % c)
            bad = declarative([c if c != "NA" else " " for c in codes], hb, chain, skip, kb, ku, n)
            if bad:
                viol("api|" + bad.split(" has ")[-1].split(" but ")[0][:40], "compute_dssp frame %d: %s" % (f, bad), dict(rp0, frame=f, codes="".join(c if c != "NA" else "?" for c in codes)))
            if n <= 130 and f < 2:
                bonds = ",".join("%d-%d" % (d, a) for d, accs in hb.items() for a in accs) or "-"
                for s_ in (0, 1):
                    reqs.append("dssp %d %d %s %s %s %s" % (n, s_, ",".join(map(str, chain)), "".join("1" if x else "0" for x in skip), "".join("1" if x else "0" for x in kb), bonds))
                    meta.append(("api", k, dict(rp0, frame=f), list(full[f]) if s_ == 0 else list(simp[f]), (skip, ku)))

    model = ctx.driver.query(reqs) if ctx.driver_ok and reqs else [None] * len(reqs)
    for (what, k, rp, codes, extra), m in zip(meta, model):
        if m is None:
            continue
        if m == "bad-op":
            ctx.broke("driver:dssp", "bad-op for case %d" % k)
            continue
        mc = [" " if c == "_" else c for c in m.split(",")]
        if what == "table":
            ctx.count("tables compared with the model")
            skip = extra
            diff = [i for i in range(len(codes)) if not skip[i] and codes[i] != mc[i]]
            if diff:
                ctx.broke("correspondence:dssp-stages", "case %d: residue %d: dssp.cpp gives %r, the model %r (impl %r, model %r, bonds %s, chains %s)" % (
                    k, diff[0], codes[diff[0]], mc[diff[0]], "".join(codes), "".join(c if c != "NA" else "?" for c in mc), rp["hbonds"], rp["chain_ids"]))
        else:
            ctx.count("API frames compared with the model")
            skip, ku = extra
            diff = [i for i in range(len(codes)) if codes[i] != mc[i] and not (ku[i] and {codes[i], mc[i]} <= {" ", "S", "C"})]
            if diff:
                ctx.broke("correspondence:compute_dssp", "case %d frame %d: residue %d: compute_dssp gives %r, the model on kabsch_sander's bonds %r" % (k, rp["frame"], diff[0], codes[diff[0]], mc[diff[0]]))
    for key, (what, rp) in seen.items():
        ctx.violation(key, what, rp)


def replay(ctx, path):
    print(json.load(open(path))["what"])
    return 1
