"""C03: slicing / joining / stacking act like array indexing on all fields; no stale hidden cache.
Correspondence: random operation histories on real Trajectory objects vs Model/Traj.lean (driver `traj`, `key`):
per trajectory n_frames, n_atoms, time tags, cell tags, cache-present flag, and the memory-sharing relation.
Oracle (independent of the model): numpy shadow arrays with real numpy views, rmsd(precentered) vs scratch,
np.shares_memory, and input hashes around observers."""
import hashlib
import os
import warnings

import numpy as np

import trajfiles as tf

ELEMS = ["H", "C", "N", "O", "S", "P"]


def base_traj(md, n, cell, seed):
    rng = np.random.RandomState(seed)
    top = md.Topology()
    ch = top.add_chain()
    for a in range(12):
        if a % 4 == 0:
            r = top.add_residue("ALA" if a < 8 else "HOH", ch)
        top.add_atom("A%d" % a, md.element.get_by_symbol(ELEMS[a % 6]), r)
    xyz = rng.uniform(-1, 3, (n, 12, 3)).astype(np.float32)
    t = md.Trajectory(xyz, top, time=np.arange(n, dtype=float))
    if cell:
        t.unitcell_lengths = np.stack([3 + 0.01 * np.arange(n), np.full(n, 3.5), np.full(n, 4.0)], axis=1)
        t.unitcell_angles = np.full((n, 3), 90.0)
    return t


def key_token(rng, n):
    c = rng.random()
    if n == 0:
        return "s_,_,1", slice(None)
    if c < 0.2:
        i = rng.randrange(-n, n)
        return "i%d" % i, i
    if c < 0.25:
        i = rng.choice([n, -n - 1, n + 3])
        return "i%d" % i, i
    if c < 0.6:
        a = rng.choice([None, None] + list(range(-n - 1, n + 2)))
        b = rng.choice([None, None] + list(range(-n - 1, n + 2)))
        s = rng.choice([1, 1, 2, 3, -1, -1, -2])
        f = lambda v: "_" if v is None else str(v)
        return "s%s,%s,%d" % (f(a), f(b), s), slice(a, b, s)
    if c < 0.8:
        l = [rng.randrange(-n, n) for _ in range(rng.randrange(1, n + 2))]
        return "x" + ",".join(map(str, l)), l
    m = [rng.random() < 0.6 for _ in range(n)]
    if not any(m):
        m[0] = True
    return "m" + "".join("1" if b else "0" for b in m), np.array(m)


def digest(pool):
    parts = []
    for t in pool:
        tt = ".".join(str(int(round(v))) for v in np.atleast_1d(t.time))
        if t.unitcell_lengths is None:
            c = "-"
        else:
            c = ".".join(str(int(round((v - 3) * 100))) for v in t.unitcell_lengths[:, 0])
        parts.append("n=%d,a=%d,t=%s,c=%s,k=%d" % (t.n_frames, t.n_atoms, tt, c, 0 if t._rmsd_traces is None else 1))
    pairs = []
    for i in range(len(pool)):
        for j in range(i + 1, len(pool)):
            if np.shares_memory(pool[i]._xyz, pool[j]._xyz):
                pairs.append("%d-%d" % (i, j))
    return ";".join(parts) + "|S:" + ",".join(pairs)


def hash_traj(t):
    h = hashlib.md5()
    for a in (t._xyz, t._time, t._unitcell_lengths, t._unitcell_angles):
        h.update(b"-" if a is None else np.ascontiguousarray(a).tobytes())
    return h.hexdigest()


def gen_history(rng, n, cell, length):
    """-> list of (token, python-thunk description). The generator tracks only frame/atom counts and cell presence."""
    st = [dict(n=n, a=12, cell=cell)]
    toks = []
    for _ in range(length):
        i = rng.randrange(len(st))
        c = rng.random()
        s = st[i]
        if c < 0.22:
            kt, _ = key_token(rng, s["n"])
            toks.append("g%d:%s" % (i, kt))
            # the resulting frame count is computed by the implementation/model, mirror it with numpy here
            try:
                kk = _py_key(kt, s["n"])
                m = len(np.atleast_1d(np.arange(s["n"])[kk]))
                st.append(dict(n=m, a=s["a"], cell=s["cell"]))
            except IndexError:
                pass
        elif c < 0.30:
            a = rng.randrange(0, s["n"] + 1); b = rng.randrange(a, s["n"] + 2)
            toks.append("v%d:%d,%d" % (i, a, b))
            st.append(dict(n=max(0, min(b, s["n"]) - a), a=s["a"], cell=s["cell"]))
        elif c < 0.40:
            js = [rng.randrange(len(st)) for _ in range(rng.randrange(0, 3))]     # none: md.join of a one-element list
            toks.append("j%d:%s" % (i, ",".join(map(str, js))))
            if all(st[j]["a"] == s["a"] and st[j]["cell"] == s["cell"] for j in js):
                st.append(dict(n=s["n"] + sum(st[j]["n"] for j in js), a=s["a"], cell=s["cell"]))
        elif c < 0.46:
            j = rng.randrange(len(st))
            toks.append("k%d:%d" % (i, j))
            if st[j]["n"] == s["n"]:
                st.append(dict(n=s["n"], a=s["a"] + st[j]["a"], cell=s["cell"]))
        elif c < 0.58:
            inplace = rng.random() < 0.5
            k = rng.randrange(3, s["a"] + 1) if s["a"] >= 3 else s["a"]
            idx = sorted(rng.sample(range(s["a"]), k))
            toks.append("a%d:%d:%s" % (i, 1 if inplace else 0, ",".join(map(str, idx))))
            if inplace:
                s["a"] = len(idx)
            else:
                st.append(dict(n=s["n"], a=len(idx), cell=s["cell"]))
        elif s["n"] == 0 and c < 0.91:
            continue   # trajectories without frames (empty slices) are outside the quantifier for the in-place operations
        elif c < 0.72:
            toks.append("c%d" % i)
        elif c < 0.79:
            toks.append("w%d" % i)
        elif c < 0.86:
            r = rng.randrange(len(st))
            if st[r]["n"] == 0:
                continue
            toks.append("p%d:%d" % (i, r))
        elif c < 0.885:
            toks.append("X%d" % i)
        elif c < 0.91:
            toks.append("Y%d" % i)        # the array behind .xyz edited in place, then assigned: t.xyz += c
        elif c < 0.96:
            toks.append("T%d:%d" % (i, rng.choice([100, 7, 9, 8, 99, 101])))
        else:
            on = rng.random() < 0.5
            toks.append("C%d:%d" % (i, 1 if on else 0))
            s["cell"] = on
    return toks


def _py_key(kt, n):
    body = kt[1:]
    if kt[0] == "i":
        # the same index as a Python int or as a numpy integer scalar (what np.argmin / rng.integers / iterating an array hand out)
        v = int(body)
        return [v, np.int64(v), np.int32(v)][(v + n) % 3]
    if kt[0] == "s":
        a, b, c = body.split(",")
        f = lambda v: None if v == "_" else int(v)
        return slice(f(a), f(b), int(c))
    if kt[0] == "x":
        return [int(v) for v in body.split(",")]
    mask = [ch == "1" for ch in body]
    # a boolean mask as numpy hands it on (an array), as a plain Python list (mask.tolist()), or as a list of numpy booleans
    return [np.array(mask), mask, [np.bool_(v) for v in mask]][(len(body) + body.count("1")) % 3]


class Runner:
    """executes a history on real trajectories, with a numpy shadow of the coordinates, checking after each step"""

    def __init__(self, md, t0, rng_seed):
        self.md = md
        self.pool = [t0]
        self.shadow = [t0.xyz.copy()]
        self.problems = []
        self.known = []             # occurrences of the recorded finding: a cache left stale in ANOTHER trajectory that shares the storage
        self.known_stale = set()
        self.rs = np.random.RandomState(rng_seed)

    def problem(self, kind, msg):
        self.problems.append((kind, msg))

    def step(self, tok):
        md, pool, sh = self.md, self.pool, self.shadow
        head, *rest = tok.split(":")
        op, i = head[0], int(head[1:])
        if i >= len(pool):
            return
        t = pool[i]
        new, newsh, copied = None, None, False
        try:
            if op == "g":
                key = _py_key(rest[0], t.n_frames)
                try:
                    ref = sh[i][key]
                except IndexError:
                    ref = None
                try:
                    new = t[key]
                except IndexError:
                    new = None
                if (new is None) != (ref is None):
                    self.problem("index-error", "t[%s] on %d frames: numpy %s, trajectory %s" % (rest[0], t.n_frames, "raises" if ref is None else "works", "raises" if new is None else "works"))
                if new is not None and ref is not None:
                    newsh = np.array(ref, copy=True).reshape(-1, t.n_atoms, 3)
                    copied = True
                    # time and cell must be indexed by the same key
                    if not np.array_equal(np.atleast_1d(new.time), np.atleast_1d(t.time[key])):
                        self.problem("fields", "t[%s]: time is not time[key]" % rest[0])
                    if t.unitcell_lengths is not None and not np.array_equal(new.unitcell_lengths, t.unitcell_lengths[key].reshape(-1, 3)):
                        self.problem("fields", "t[%s]: unitcell_lengths is not lengths[key]" % rest[0])
            elif op == "v":
                a, b = map(int, rest[0].split(","))
                new = t.slice(slice(a, b), copy=False)
                newsh = sh[i][a:b]
            elif op == "j":
                js = [int(x) for x in rest[0].split(",") if x != ""]
                if all(j < len(pool) for j in js):
                    try:
                        if not js or (i + len(pool)) % 2 == 0:
                            new = md.join([t] + [pool[j] for j in js], check_topology=False)
                        else:
                            new = t.join([pool[j] for j in js], check_topology=False)
                        newsh = np.concatenate([sh[i]] + [sh[j] for j in js])
                        copied = True
                        if not np.array_equal(new.time, np.concatenate([t.time] + [pool[j].time for j in js])):
                            self.problem("fields", "join: time is not the concatenation")
                    except ValueError:
                        ok = all(pool[j].n_atoms == t.n_atoms and (pool[j].unitcell_lengths is None) == (t.unitcell_lengths is None) for j in js)
                        if ok:
                            self.problem("join-refused", "join of compatible trajectories raised ValueError")
            elif op == "k":
                j = int(rest[0])
                if j < len(pool):
                    try:
                        new = t.stack(pool[j])
                        newsh = np.hstack((sh[i], sh[j]))
                        copied = True
                    except ValueError:
                        if pool[j].n_frames == t.n_frames:
                            self.problem("stack-refused", "stack of trajectories with equal frame counts raised")
            elif op == "a":
                inplace = rest[0] == "1"
                idx = [int(x) for x in rest[1].split(",")] if rest[1] else []
                if all(x < t.n_atoms for x in idx):
                    r = t.atom_slice(idx, inplace=inplace)
                    if inplace:
                        sh[i] = np.array(sh[i][:, idx], order="C")
                    else:
                        new, newsh, copied = r, np.array(sh[i][:, idx], order="C"), True
            elif op == "c":
                t.center_coordinates()
                self.known_stale.discard(i)
                if sh[i].size:
                    sh[i] -= sh[i].astype(np.float64).mean(axis=1, keepdims=True).astype(np.float32)   # in place, like numpy would
            elif op == "w":
                m = np.array([a.element.mass for a in t.topology.atoms])
                t.center_coordinates(mass_weighted=True)
                com = (sh[i].astype(np.float64) * m[None, :, None]).sum(1) / m.sum()
                sh[i] = (sh[i] - com[:, None, :]).astype(np.float32)
            elif op == "p":
                r = int(rest[0])
                if r < len(pool) and pool[r].n_atoms == t.n_atoms and pool[r].n_frames > 0 and t.n_frames > 0:
                    t.superpose(pool[r])
                    sh[i] = t.xyz.copy()   # values are C06's business; here only provenance/aliasing
            elif op == "X":
                val = self.rs.uniform(-1, 3, (t.n_frames, t.n_atoms, 3)).astype(np.float32)
                t.xyz = val
                sh[i] = val.copy()
            elif op == "Y":
                # x = t.xyz; x += d; t.xyz = x  (what `t.xyz += d` does): the setter receives the array the trajectory already holds
                for j, o in enumerate(pool):
                    if j != i and o._rmsd_traces is not None and o.n_frames and t.n_frames and np.shares_memory(o._xyz, t._xyz):
                        self.known_stale.add(j)
                d_ = self.rs.uniform(0.5, 2.0, (t.n_frames, 1, 3)).astype(np.float32) * self.rs.choice([-1.0, 1.0])
                x_ = t.xyz
                x_ += d_ * np.linspace(0.0, 1.0, t.n_atoms, dtype=np.float32)[None, :, None]
                t.xyz = x_
                if sh[i].size:
                    sh[i] += d_ * np.linspace(0.0, 1.0, t.n_atoms, dtype=np.float32)[None, :, None]
                self.known_stale.discard(i)
            elif op == "T":
                # time stamps as users assign them: float32 (as read from files), float64 with a part below float32 resolution, or integers;
                # later joins mix these dtypes and must behave like np.concatenate (promotion, no truncation)
                d_ = int(rest[0])
                base_ = np.rint(np.asarray(t.time, dtype=np.float64)) + d_
                t.time = [base_.astype(np.float32), base_ + 2.0 ** -30, base_.astype(np.int64)][d_ % 3]
            elif op == "C":
                if rest[0] == "1":
                    t.unitcell_lengths = np.stack([3 + 0.01 * t.time, np.full(t.n_frames, 3.5), np.full(t.n_frames, 4.0)], axis=1)
                    t.unitcell_angles = np.full((t.n_frames, 3), 90.0)
                else:
                    t.unitcell_lengths = None
                    t.unitcell_angles = None
        except Exception as e:  # noqa: BLE001
            self.problem("raises", "%s raised %s: %s" % (tok, type(e).__name__, str(e)[:120]))
            return
        if new is not None:
            if copied:
                for j, o in enumerate(pool):
                    if np.shares_memory(new._xyz, o._xyz):
                        self.problem("shares-xyz", "%s: result coordinates share memory with trajectory %d" % (tok, j))
                    if op in ("g", "j", "a", "k") and (np.shares_memory(new._time, o._time)
                                                  or (new._unitcell_lengths is not None and o._unitcell_lengths is not None and np.shares_memory(new._unitcell_lengths, o._unitcell_lengths))
                                                  or (new.topology is not None and new.topology is o.topology)):
                        self.problem("shares-data", "%s: result shares time/cell/topology with trajectory %d" % (tok, j))
            pool.append(new)
            sh.append(newsh)
            if i in self.known_stale and new._rmsd_traces is not None:
                self.known_stale.add(len(pool) - 1)
        self.check_all(tok)

    def check_all(self, tok):
        md = self.md
        for j, (t, s) in enumerate(zip(self.pool, self.shadow)):
            n = t.n_frames
            if len(t.time) != n or (t.unitcell_lengths is not None and (len(t.unitcell_lengths) != n or len(t.unitcell_angles) != n)):
                self.problem("lengths", "after %s: trajectory %d has %d frames, %d times, cell %s" % (tok, j, n, len(t.time), None if t.unitcell_lengths is None else len(t.unitcell_lengths)))
            if t.xyz.shape != s.shape or not np.allclose(t.xyz, s, atol=3e-5):
                self.problem("xyz", "after %s: coordinates of trajectory %d differ from the numpy shadow (max %.3g)" % (
                    tok, j, float(np.abs(t.xyz - s).max()) if t.xyz.shape == s.shape and s.size else -1))
            if t._rmsd_traces is not None and n > 0:
                if j in self.known_stale:
                    self.known.append("after %s: trajectory %d shares storage with a trajectory whose array was edited in place and assigned; its cache was not reset" % (tok, j))
                    continue
                if len(np.atleast_1d(t._rmsd_traces)) != n:
                    self.problem("cache", "after %s: trajectory %d has %d cached traces for %d frames" % (tok, j, len(np.atleast_1d(t._rmsd_traces)), n))
                    continue
                before = hash_traj(t)
                a = md.rmsd(t, t, 0, precentered=True)
                tc = md.Trajectory(t.xyz.copy(), t.topology)
                b = md.rmsd(tc, tc, 0)
                # compared on squares: near rmsd = 0 the QCP difference Ga+Gb-2*lambda cancels and sqrt amplifies float32 noise
                # float32 budget of the QCP kernel (C06): a few 1e-6 of the mean squared radius, amplified when few atoms make the two largest
                # eigenvalues of the key matrix close; a stale cache is off by the squared centre displacement (1e-2 nm^2 and more)
                xc = t.xyz.astype(np.float64) - t.xyz.astype(np.float64).mean(1, keepdims=True)
                g_over_n = float((xc ** 2).sum(-1).mean())
                budget = 3e-5 + (1e-3 if t.n_atoms <= 4 else 1e-4) * g_over_n
                if not np.allclose(a * a, b * b, atol=budget):
                    self.problem("cache", "after %s: rmsd(precentered=True) differs from rmsd from scratch on trajectory %d (max |d msd| %.3g nm^2, max |d rmsd| %.3g nm)" % (
                        tok, j, float(np.abs(a * a - b * b).max()), float(np.abs(a - b).max())))
                if hash_traj(t) != before:
                    self.problem("mutated", "md.rmsd(precentered=True) modified its input")


def _lh5_write(md, t, path):
    from mdtraj.formats import LH5TrajectoryFile
    f = LH5TrajectoryFile(path, "w", force_overwrite=True)
    try:
        f.write(t.xyz)          # (Trajectory.save_lh5 hands its own array over in the same way)
    finally:
        f.close()


def observers(md, t, scratch):
    out = []
    if t.n_frames == 0 or t.n_atoms < 4:
        return out
    pairs = np.array([[0, 1], [1, 2], [0, 3]])
    d = np.linalg.norm(t.xyz[:, :, None, :] - t.xyz[:, None, :, :], axis=-1) + np.eye(t.n_atoms)[None] * 10
    distinct = bool(d.min() > 1e-3)   # sasa.cpp exits the process on coincident atoms (outside C13's quantifier)
    obs = [
        ("compute_distances", lambda: md.compute_distances(t, pairs)),
        ("compute_angles", lambda: md.compute_angles(t, [[0, 1, 2]])),
        ("compute_dihedrals", lambda: md.compute_dihedrals(t, [[0, 1, 2, 3]])),
        ("compute_rg", lambda: md.compute_rg(t)),
        ("compute_center_of_mass", lambda: md.compute_center_of_mass(t)),
        ("shrake_rupley", lambda: md.shrake_rupley(t, n_sphere_points=20) if distinct else None),
        ("save_h5", lambda: t.save(os.path.join(scratch, "obs.h5"))),
        ("save_xtc", lambda: t.save(os.path.join(scratch, "obs.xtc"))),
        ("save_pdb", lambda: t.save(os.path.join(scratch, "obs.pdb"))),
        ("save_dcd", lambda: t.save(os.path.join(scratch, "obs.dcd"))),
        ("LH5TrajectoryFile.write", lambda: _lh5_write(md, t, os.path.join(scratch, "obs.lh5"))),
        ("save_gro", lambda: t.save(os.path.join(scratch, "obs.gro"))),
        ("save_mdcrd", lambda: t.save(os.path.join(scratch, "obs.mdcrd"))),
        ("compute_neighbors", lambda: md.compute_neighbors(t, 0.5, [0])),
        ("compute_contacts", lambda: md.compute_contacts(t, [[0, 1]])),
    ]
    for name, fn in obs:
        h = hash_traj(t)
        try:
            fn()
        except Exception as e:  # noqa: BLE001
            continue
        if hash_traj(t) != h:
            out.append(name)
    return out


def run(ctx):
    warnings.filterwarnings("ignore")
    import mdtraj as md
    ctx.rule = ("random operation histories (indexing with int/negative/slice/reversed slice/index list/bool mask, slice(copy=False), join, "
                "stack, atom_slice in place or not, center_coordinates plain and mass-weighted, superpose, xyz/time/unitcell assignment) "
                "on a pool of real Trajectory objects; after every step all trajectories are checked against numpy shadows, "
                "rmsd(precentered) vs scratch and np.shares_memory; non-trivial = distinct history containing a cache-creating op "
                "and a later indexing/aliasing op")
    ctx.assumptions.append("values produced by superpose are taken from the implementation (C06 decides them); only provenance and aliasing are modelled here")
    rng = ctx.rng
    n_hist = ctx.n(150, 1500)
    maxlen = ctx.n(12, 40)
    hists = [
        (8, False, ["c0", "g0:s2,6,1", "c0"]),
        (8, True, ["c0", "a0:1:0,1,2,3,4", "g0:i-1"]),
        (8, False, ["c0", "v0:0,5", "w1"]),
        (8, False, ["c0", "v0:0,5", "p0:0", "g1:s_,_,-1"]),
        (6, True, ["c0", "g0:x0,-1,2", "j1:0", "k0:0", "g0:m101010"]),
        (5, True, ["g0:i5", "g0:i-6", "j0:0,0", "C0:0", "j0:1"]),
        (6, False, ["c0", "Y0", "g0:s1,4,1"]),                 # t.xyz += c after centring: the setter must drop the cache
        (6, False, ["c0", "g0:s_,_,1", "Y1", "c0", "Y0", "g0:m110011"]),
        (6, True, ["c0", "v0:0,4", "Y1"]),                     # the same through a view: the source's cache goes stale (recorded finding)
        (6, False, ["c0", "v0:1,5", "Y0", "g1:s_,_,2"]),       # and the view's, edited through the source
    ]
    for _ in range(n_hist):
        n = rng.choice([1, 2, 5, 8])
        cell = rng.random() < 0.5
        hists.append((n, cell, gen_history(rng, n, cell, rng.randrange(2, maxlen + 1))))
    reqs = ["traj %d 12 %d %s" % (n, 1 if cell else 0, ";".join(toks)) for n, cell, toks in hists]
    model = ctx.driver.query(reqs) if ctx.driver_ok else [None] * len(reqs)
    # key semantics, separately and exhaustively for small n in the thorough tier
    kreq, kexp = [], []
    for _ in range(ctx.n(300, 3000)):
        n = rng.randrange(0, 8)
        kt, _ = key_token(rng, n) if n else ("s_,_,1", None)
        kreq.append("key %d %s" % (n, kt))
        try:
            kexp.append("P" + ",".join(map(str, np.atleast_1d(np.arange(n)[_py_key(kt, n)]).tolist())))
        except IndexError:
            kexp.append("ERR")
    if ctx.driver_ok:
        for rq, got, exp in zip(kreq, ctx.driver.query(kreq), kexp):
            ctx.case(None, None)
            ctx.count("key checks")
            if got != exp:
                ctx.broke("correspondence:key-positions", "%s: numpy gives %s, Model Key.positions gives %s" % (rq, exp, got))

    seen = {}
    for hi, ((n, cell, toks), m) in enumerate(zip(hists, model)):
        t0 = base_traj(md, n, cell, seed=hi)
        r = Runner(md, t0, hi)
        for tok in toks:
            r.step(tok)
            if r.problems:
                break
        nontriv = None
        cidx = [k for k, t in enumerate(toks) if t[0] == "c"]
        if cidx and any(t[0] in "gvajkpY" for t in toks[cidx[0] + 1:]):
            nontriv = (n, cell, tuple(toks))
        ctx.case(dict(n_frames=n, cell=cell, ops=toks), nontriv)
        ctx.count("histories")
        ctx.count("ops", len(toks))
        for t in toks:
            ctx.count("op:" + t[0])
        if r.known:
            seen.setdefault("cache|alias|in-place-assignment-through-view", ("history %s on %d frames: %s" % (toks, n, r.known[0]), dict(n_frames=n, cell=cell, ops=toks, seed=hi)))
        if r.problems:
            kind, msg = r.problems[0]
            done = toks[:toks.index(tok) + 1]
            small = shrink(md, n, cell, hi, done, kind)
            key = "%s|%s" % (kind, "-".join(t[0] for t in small))
            if kind in ("cache", "xyz"):
                key = "%s|%s" % (kind, "-".join(sorted(set(t[0] for t in small))))
            seen.setdefault(key, ("history %s on %d frames%s: %s" % (small, n, " with cell" if cell else "", msg),
                                  dict(n_frames=n, cell=cell, ops=small, seed=hi, problem=msg)))
            continue
        d = digest(r.pool)
        if m is not None and d != m:
            ctx.broke("correspondence:traj-history", "history %s n=%d cell=%s: impl %s model %s" % (toks, n, cell, d, m))
        if hi % 10 == 0:
            for j, t in enumerate(r.pool[:3]):
                for name in observers(md, t, ctx.scratch):
                    seen.setdefault("mutated|" + name, ("%s modified its input trajectory (xyz/time/cell hash changed)" % name,
                                                        dict(n_frames=n, cell=cell, ops=toks, observer=name)))
                    ctx.count("observer calls")
    # ---- atom subsets given in any order, with repeats and negative values: the coordinate columns are xyz[:, idx] and the topology
    # names the same atoms in the same order
    import warnings as _w
    for k in range(ctx.n(12, 80)):
        tb = base_traj(md, 3, k % 2 == 0, seed=100 + k)
        na = tb.n_atoms
        idx = [rng.randrange(-na, na) for _ in range(rng.randrange(1, 7))] if k % 3 else rng.sample(range(na), rng.randrange(1, na))
        for inplace in (False, True):
            tc = tb[:]
            with _w.catch_warnings():
                _w.simplefilter("ignore")
                try:
                    r_ = tc.atom_slice(idx, inplace=inplace)
                except Exception as e:  # noqa: BLE001
                    seen.setdefault("atom_slice|unsorted|raises", ("atom_slice(%s, inplace=%s) raised %s: %s" % (idx, inplace, type(e).__name__, e), dict(idx=idx)))
                    continue
            res = tc if inplace else r_
            ctx.case(None, ("atom-slice-order", k, inplace)); ctx.count("atom subsets in arbitrary order")
            want_names = [tb.topology.atom(i % na).name for i in idx]
            got_names = [res.topology.atom(j).name for j in range(res.topology.n_atoms)]
            if res.n_atoms != len(idx) or not np.array_equal(res.xyz, tb.xyz[:, idx]) or got_names != want_names:
                seen.setdefault("atom_slice|unsorted|pairing", ("atom_slice(%s, inplace=%s): coordinate columns %s, topology atoms %s, numpy indexing gives the atoms %s" % (
                    idx, inplace, "match xyz[:, idx]" if res.xyz.shape == tb.xyz[:, idx].shape and np.array_equal(res.xyz, tb.xyz[:, idx]) else "differ from xyz[:, idx]", got_names, want_names), dict(idx=idx, inplace=inplace)))
    # ---- a unit cell assigned as float64 vectors: slices, joins and atom subsets reproduce the stored lengths and angles exactly
    tv = base_traj(md, 5, False, seed=7)
    vec = np.array([[[3.0 + 0.1234567891 * f, 0, 0], [0.3, 3.5 + 1e-9 * f, 0], [0.2, 0.4, 4.0 + 0.0123456789 * f]] for f in range(5)], dtype=np.float64)
    tv.unitcell_vectors = vec
    ctx.case(None, ("cell-vectors-f64",)); ctx.count("float64 unit cell vectors")
    for how, r_ in (("t[1:4]", tv[1:4]), ("t.atom_slice([0, 1])", tv.atom_slice([0, 1])), ("t.join(t)[:5]", tv.join(tv)[:5])):
        w_l = tv.unitcell_lengths[1:4] if how == "t[1:4]" else tv.unitcell_lengths
        w_a = tv.unitcell_angles[1:4] if how == "t[1:4]" else tv.unitcell_angles
        if not (np.array_equal(r_.unitcell_lengths, w_l) and np.array_equal(r_.unitcell_angles, w_a)):
            seen.setdefault("cell|float64-vectors|" + how, ("after t.unitcell_vectors = <float64 array>, %s does not reproduce the stored cell: lengths differ by %.3g" % (
                how, float(np.abs(np.asarray(r_.unitcell_lengths, dtype=np.float64) - w_l).max())), dict(how=how)))
    # ---- joins of trajectories whose per-frame fields have different dtypes: exactly np.concatenate (promotion, nothing truncated)
    mk_time = {
        "int64": lambda n_, o: np.arange(n_, dtype=np.int64) + o,
        "float32": lambda n_, o: (np.arange(n_) * 0.5 + o).astype(np.float32),
        "float64": lambda n_, o: np.arange(n_) * 0.25 + o + 2.0 ** -30,
    }
    for ka in mk_time:
        for kb in mk_time:
            a_ = base_traj(md, 3, ka != "int64", seed=1); b_ = base_traj(md, 4, ka != "int64", seed=2)
            a_.time = mk_time[ka](3, 0); b_.time = mk_time[kb](4, 10)
            want_t = np.concatenate([a_.time, b_.time])
            for how, fn in (("a.join(b)", lambda: a_.join(b_)), ("a + b", lambda: a_ + b_), ("md.join([a, b])", lambda: md.join([a_, b_])), ("a.join([b, a])", lambda: a_.join([b_, a_]))):
                try:
                    r_ = fn()
                except Exception as e:  # noqa: BLE001
                    seen.setdefault("join|dtypes|raises", ("%s with time dtypes %s, %s raised %s: %s" % (how, ka, kb, type(e).__name__, e), dict(time_dtypes=[ka, kb])))
                    continue
                wt = want_t if "[b, a]" not in how else np.concatenate([a_.time, b_.time, a_.time])
                ctx.case(None, ("join-dtypes", ka, kb, how)); ctx.count("joins with mixed field dtypes")
                if not np.array_equal(np.asarray(r_.time, dtype=np.float64), np.asarray(wt, dtype=np.float64)):
                    seen.setdefault("join|time-dtype|%s+%s" % (ka, kb), ("%s of trajectories whose time stamps are %s and %s gives times %s, np.concatenate gives %s" % (how, ka, kb, np.asarray(r_.time)[:8], wt[:8]),
                                                                              dict(time_dtypes=[ka, kb], how=how)))
                if not np.array_equal(r_.xyz, np.concatenate([a_.xyz, b_.xyz] + ([a_.xyz] if "[b, a]" in how else []))):
                    seen.setdefault("join|xyz", ("%s: coordinates are not the concatenation" % how, dict(how=how)))
    # ---- join(discard_overlapping_frames=True) and md.join: pieces that repeat the last frame of the piece before (to within the 2e-3 nm of
    # the code's test), that nearly do (3e-3 nm off) or do not, against the model (JoinDiscard: one frame fewer per overlapping junction,
    # whole frames — coordinates, times and cells together — in the order of the pieces)
    jreq, jmeta = [], []
    for k in range(ctx.n(30, 300)):
        rs = np.random.RandomState(ctx.seed * 7919 + k)
        n_at = 5
        n_pieces = rng.choice([2, 2, 3, 4])
        pieces, ids, next_id = [], [], 1
        prev_last = None
        for pi in range(n_pieces):
            L_ = rng.choice([1, 1, 2, 3, 5])
            X_ = rs.rand(L_, n_at, 3).astype(np.float32) * 3 + 1
            id_ = list(range(next_id, next_id + L_)); next_id += L_
            kind_ = rng.choice(["repeat", "repeat", "jitter", "near", "fresh"]) if prev_last is not None else "fresh"
            if kind_ == "repeat":
                X_[0] = prev_last[0]; id_[0] = prev_last[1]
            elif kind_ == "jitter":     # within the tolerance of the test: the same frame as far as the code is concerned
                X_[0] = prev_last[0] + rs.uniform(-1.5e-3, 1.5e-3, (n_at, 3)).astype(np.float32); id_[0] = prev_last[1]
            elif kind_ == "near":       # one atom 3e-3 nm off: another frame
                X_[0] = prev_last[0]; X_[0, rs.randint(n_at), rs.randint(3)] += np.float32(3e-3)
            tr_ = md.Trajectory(X_, None, time=np.array(id_, dtype=np.float32), unitcell_lengths=np.array([[10.0 + i_, 10, 10] for i_ in id_], dtype=np.float32),
                                unitcell_angles=np.full((L_, 3), 90.0, dtype=np.float32))
            pieces.append(tr_); ids.append(id_)
            prev_last = (X_[-1].copy(), id_[-1])
        how = ["method", "md.join"][k % 2]
        try:
            J = pieces[0].join(pieces[1:], discard_overlapping_frames=True) if how == "method" else md.join(pieces, discard_overlapping_frames=True)
        except Exception as e:
            seen.setdefault("join-discard|raises", ("join(discard_overlapping_frames=True) of pieces with frames %s raised %s: %s" % (ids, type(e).__name__, str(e)[:80]), dict(ids=ids)))
            continue
        got_ids = [int(round(float(v))) for v in J.time]
        cell_ids = [int(round(float(v) - 10.0)) for v in J.unitcell_lengths[:, 0]]
        # which input frame each output frame is, by its coordinates
        flat = [(id_, pieces[pi].xyz[fi]) for pi, idl in enumerate(ids) for fi, id_ in enumerate(idl)]
        xyz_ids = []
        for fr in J.xyz:
            m_ = [id_ for id_, x_ in flat if np.array_equal(x_, fr)]
            xyz_ids.append(m_[0] if m_ else -1)
        ctx.case(None, ("join-discard", k)); ctx.count("joins with discard_overlapping_frames")
        jreq.append("joindiscard " + ";".join(",".join(map(str, l)) for l in ids)); jmeta.append((ids, got_ids, cell_ids, xyz_ids, how))
    if ctx.driver_ok and jreq:
        for (ids, got_ids, cell_ids, xyz_ids, how), line in zip(jmeta, ctx.driver.query(jreq)):
            want = [int(x) for x in line.split(",")] if line else []
            ok_xyz = len(xyz_ids) == len(want) and all(a == b or a == -1 for a, b in zip(xyz_ids, want))   # (a jittered repeat has its own coordinates)
            if got_ids != want or cell_ids != want or not ok_xyz:
                seen.setdefault("join-discard|frames", ("join(discard_overlapping_frames=True) [%s] of pieces with frames %s gives times %s, cells %s, coordinates %s; one frame is dropped per overlapping junction: %s" % (
                    how, ids, got_ids, cell_ids, xyz_ids, want), dict(ids=ids, how=how)))
    for key, (what, rp) in seen.items():
        ctx.violation(key, what, rp)


def shrink(md, n, cell, seed, toks, kind):
    def fails(cand):
        r = Runner(md, base_traj(md, n, cell, seed), seed)
        for t in cand:
            try:
                r.step(t)
            except Exception:  # noqa: BLE001
                return False
            if r.problems:
                return r.problems[0][0] == kind
        return False
    cur = list(toks)
    changed = True
    while changed and len(cur) > 1:
        changed = False
        for i in range(len(cur)):
            cand = cur[:i] + cur[i + 1:]
            # removing an op that creates a trajectory shifts later indices: only accept if still failing
            if fails(cand):
                cur = cand
                changed = True
                break
    return cur


def replay(ctx, path):
    import json
    import mdtraj as md
    warnings.filterwarnings("ignore")
    rp = json.load(open(path))["replay"]
    r = Runner(md, base_traj(md, rp["n_frames"], rp["cell"], rp.get("seed", 0)), rp.get("seed", 0))
    for t in rp["ops"]:
        r.step(t)
    print(rp["ops"], "->", r.problems[:3])
    return 1 if r.problems else 0
