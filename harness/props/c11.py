"""C11: re-imaging moves atoms only by lattice vectors and makes molecules whole.
Theorems (Properties/C11.lean): the offset of make_whole is a lattice vector and recovers exactly the scrambling lattice vector of a short bond;
any bond list moves atoms by lattice vectors only; a valid placement order makes every listed pair whole; the order computed by
_bonds_in_placement_order is valid for every bond graph; wrap_mols = common translation + one lattice vector per molecule, centre inside the cell;
consequently minimum-image displacements are unchanged (via C05/C09).
Correspondence: _bonds_in_placement_order vs the model's BFS (`imgorder`), make_molecules_whole vs the model over exact rationals (`imgwhole`, rounding
margins reported), the non-anchor part of image_molecules vs `imgwrap`.
Oracle (independent of the model): float64 lattice-congruence of every displacement, bonded pairs at their brute-force minimum-image separation,
periodic distances/angles/dihedrals before and after, cells/times/topology untouched, inplace semantics and memory sharing."""
import json
import os
import warnings

import numpy as np

from props.c05 import cells, rat, width, brute_min


def build(md, rng):
    """whole configuration + topology with randomly labelled atoms"""
    while True:
        kind, box = cells(rng)
        box = box.astype(np.float64)
        w_cell = width(box)
        n_mol = rng.choice([1, 2, 3, 5])
        sizes = [rng.choice([1, 2, 3, 4, 6, 9, 14]) for _ in range(n_mol)]
        if max(sizes) < 2:
            continue
        n = sum(sizes)
        labels = list(range(n))
        rng.shuffle(labels)
        if rng.random() < 0.3:
            labels = list(range(n))                     # the ordinary labelling: parents before children
        whole = np.zeros((n, 3))
        mols, bonds = [], []
        pos = 0
        ok = True
        for s in sizes:
            lab = labels[pos:pos + s]
            pos += s
            root = np.array([rng.random() for _ in range(3)]) @ box
            local = [root]
            parent = [None]
            for k in range(1, s):
                p = rng.randrange(k) if rng.random() < 0.5 else k - 1
                while True:
                    d = np.array([rng.gauss(0, 1) for _ in range(3)])
                    if np.linalg.norm(d) > 0.2:
                        break
                d = d / np.linalg.norm(d) * rng.uniform(0.09, 0.16)
                local.append(local[p] + d)
                parent.append(p)
                bonds.append((lab[p], lab[k]))
                if parent[p] is not None and rng.random() < 0.15:
                    bonds.append((lab[parent[p]], lab[k]))          # three-membered ring
            local = np.array(local)
            if s > 1 and (local.max(0) - local.min(0)).max() > 0.4 * w_cell:
                ok = False
                break
            whole[lab] = local
            mols.append(sorted(lab))
        if ok:
            break
    top = md.Topology()
    ch = top.add_chain()
    r = top.add_residue("MOL", ch)
    for i in range(n):
        top.add_atom("C%d" % i, md.element.carbon, r)
    atoms = list(top.atoms)
    rng.shuffle(bonds)
    for (a, b) in bonds:
        if rng.random() < 0.5:
            a, b = b, a
        top.add_bond(atoms[a], atoms[b])
    return kind, box, top, whole, mols, bonds


def lattice_frac(box, d):
    return np.linalg.solve(box.T, d.T).T


def run(ctx):
    warnings.filterwarnings("ignore")
    import mdtraj as md
    import mdtraj.core.trajectory as trajmod

    class Capture:
        """proxy for the _geometry module inside trajectory.py: records the bond list handed to the kernels"""
        def __init__(self, real):
            self._real = real
            self.last = None

        def __getattr__(self, name):
            return getattr(self._real, name)

        def whole_molecules(self, xyz, box, sorted_bonds):
            self.last = None if sorted_bonds is None else [tuple(int(x) for x in p) for p in np.asarray(sorted_bonds).reshape(-1, 2)]
            return self._real.whole_molecules(xyz, box, sorted_bonds)

        def image_molecules(self, xyz, box, anchors, others, sorted_bonds):
            self.last = None if sorted_bonds is None else [tuple(int(x) for x in p) for p in np.asarray(sorted_bonds).reshape(-1, 2)]
            return self._real.image_molecules(xyz, box, anchors, others, sorted_bonds)
    cap = Capture(trajmod._geometry)
    trajmod._geometry = cap
    ctx.rule = ("systems of 1..5 molecules (random trees of 1..14 atoms with 0.09-0.16 nm bonds, optional three-membered rings, extent below 0.4 cell widths), atoms "
                "labelled in random order (so that parents can have higher indices than children) or in the ordinary order, bonds added in random order and "
                "orientation x cells of C05 (per-frame varying) x 1..3 frames x scrambling by lattice vectors (-2..2 per axis) per atom or per molecule x "
                "make_molecules_whole / image_molecules x inplace x make_whole x explicit or guessed anchors; non-trivial = distinct (system, frame, call) in which "
                "at least one atom was displaced by a non-zero lattice vector")
    ctx.assumptions += ["the choice of which anchor molecule is attached next (find_closest_contact + argmin) is not modelled; only that anchors move as units by lattice vectors (oracle)",
                        "float32 arithmetic of the kernel: positions compared within 2e-5 nm + 1e-6 |x|; rounding decisions within 1e-3 of a tie are excluded from the model comparison"]
    rng = ctx.rng
    seen = {}

    def viol(key, what, rp):
        seen.setdefault(key, (what, rp))
    reqs, meta = [], []
    for k in range(ctx.n(60, 500)):
        kind, box0, top, whole, mols, bonds = build(md, rng)
        n = top.n_atoms
        nfr = rng.choice([1, 2, 3])
        mode = rng.choice(["atoms", "atoms", "mols"])
        boxes, xyz = [], []
        for f in range(nfr):
            if f > 0 and rng.random() < 0.5:
                box = box0 * rng.choice([1.0, 1.25, 0.9])
            else:
                box = box0
            x = whole * (np.linalg.norm(box[0]) / np.linalg.norm(box0[0]))   # scaled with the cell so molecules stay short
            x = whole.copy()
            shifts = np.zeros((n, 3))
            if mode == "atoms":
                for a in range(n):
                    shifts[a] = [rng.randrange(-2, 3) for _ in range(3)]
            else:
                for m in mols:
                    s = [rng.randrange(-2, 3) for _ in range(3)]
                    shifts[m] = s
            xyz.append(x + shifts @ box)
            boxes.append(box)
        t = md.Trajectory(np.array(xyz, dtype=np.float32), top)
        t.unitcell_vectors = np.array(boxes, dtype=np.float32)
        t.time = np.arange(nfr) * 0.5 + 3
        B = t.unitcell_vectors.astype(np.float64)                 # the cell the kernels actually see (standard orientation)
        orig = t.xyz.copy()
        cell0 = (t.unitcell_lengths.copy(), t.unitcell_angles.copy())
        desc = dict(cell=kind, n_atoms=n, molecules=[len(m) for m in mols], frames=nfr, scramble=mode, bonds=len(bonds))
        rp0 = dict(desc, bonds_list=[[int(b[0].index), int(b[1].index)] for b in top.bonds], xyz=orig.tolist() if n <= 30 else None,
                   unitcell_vectors=B.tolist(), seed=ctx.seed, case=k)
        bond_idx = [(int(b[0].index), int(b[1].index)) for b in top.bonds]
        pairs = np.array([(i, j) for i in range(n) for j in range(i + 1, n)][:200]) if n > 1 else None
        paths3 = [(a, b, c) for (a, b) in bond_idx for (b2, c) in bond_idx if b2 == b and c != a][:30]
        d_before = md.compute_distances(t, pairs, periodic=True) if pairs is not None and len(pairs) else None
        a_before = md.compute_angles(t, np.array(paths3), periodic=True) if paths3 else None

        # ---- placement order vs the model
        try:
            md.Trajectory(orig[:1].copy(), top, unitcell_lengths=cell0[0][:1].copy(), unitcell_angles=cell0[1][:1].copy()).make_molecules_whole()
            order = cap.last or []
        except Exception as e:
            viol("whole|raises", "make_molecules_whole raised %s: %s" % (type(e).__name__, e), rp0)
            continue
        reqs.append("imgorder %d %s" % (n, ",".join("%d-%d" % b for b in bond_idx) or "-"))
        meta.append(("order", k, desc, rp0, order))

        def common_checks(tag, res, inplace, src_before):
            rp = dict(rp0, call=tag, inplace=inplace)
            if inplace:
                if res is not t_call:
                    viol(tag + "|inplace-return", "%s(inplace=True) does not return self" % tag, rp)
            else:
                if res is t_call:
                    viol(tag + "|copy-return", "%s(inplace=False) returned self" % tag, rp)
                if not np.array_equal(t_call.xyz, src_before):
                    viol(tag + "|original-modified", "%s(inplace=False) modified the original coordinates (max %.3g nm)" % (tag, np.abs(t_call.xyz - src_before).max()), rp)
                if np.shares_memory(res.xyz, t_call.xyz):
                    viol(tag + "|shares-memory", "%s(inplace=False): the result shares its coordinate array with the original" % tag, rp)
            if not (np.array_equal(res.unitcell_lengths, cell0[0]) and np.array_equal(res.unitcell_angles, cell0[1])):
                viol(tag + "|cell-changed", "%s changed the unit cell" % tag, rp)
            if not np.array_equal(res.time, t.time):
                viol(tag + "|time-changed", "%s changed the time stamps" % tag, rp)
            if res.n_atoms != n or res.n_frames != nfr:
                viol(tag + "|shape", "%s changed the shape" % tag, rp)

        def geometry_checks(tag, res, rp):
            if d_before is not None:
                d_after = md.compute_distances(res, pairs, periodic=True)
                if np.abs(d_after - d_before).max() > 2e-4:
                    viol(tag + "|mic-distance-changed", "%s changed a minimum-image distance by %.4g nm" % (tag, np.abs(d_after - d_before).max()), rp)
            if a_before is not None:
                a_after = md.compute_angles(res, np.array(paths3), periodic=True)
                if np.abs(a_after - a_before).max() > 5e-3:
                    viol(tag + "|mic-angle-changed", "%s changed a minimum-image angle by %.4g rad" % (tag, np.abs(a_after - a_before).max()), rp)

        # ---- the in-place kernels move atoms without going through the xyz setter: a cached RMSD state (center_coordinates) must not survive
        if nfr >= 2:
            for call in ("make_molecules_whole", "image_molecules"):
                for inplace in (False, True):
                    tc = md.Trajectory(orig.copy(), top, time=t.time.copy(), unitcell_lengths=cell0[0].copy(), unitcell_angles=cell0[1].copy())
                    tc.center_coordinates()
                    try:
                        res = getattr(tc, call)(inplace=inplace)
                        got = np.array(md.rmsd(res, res, 0, precentered=True), dtype=np.float64)
                        from props.c06 import kabsch, tol_msd
                        X64r = np.array(res.xyz, dtype=np.float64)
                        want, tols = [], []
                        for f in range(nfr):
                            m_, Ga_, Gb_, lam_, gap_, _, _ = kabsch(X64r[f], X64r[0])
                            want.append(np.sqrt(max(m_, 0.0))); tols.append(tol_msd((Ga_ + Gb_) / n, gap_ / max(lam_, 1e-30), float(np.abs(X64r).max()), np.sqrt(max(m_, 0.0))))
                        want, tols = np.array(want), np.array(tols)
                    except Exception as e:
                        if "anchor molecules" in str(e):
                            ctx.count("cached-RMSD checks skipped: no anchor molecule by the documented heuristic")
                            continue
                        viol(call + "|after-centering|raises", "%s after center_coordinates raised %s: %s" % (call, type(e).__name__, e), dict(rp0, call=call, inplace=inplace))
                        continue
                    ctx.case(None, (k, "cache", call, inplace)); ctx.count("cached-RMSD checks after re-imaging")
                    if np.any(np.abs(got ** 2 - want ** 2) > 4 * tols + 1e-7):
                        viol(call + "|stale-rmsd-cache", "center_coordinates(); %s(inplace=%s): rmsd(precentered=True) gives %s, the optimal-superposition RMSD of the returned coordinates is %s" % (call, inplace, got[:4], want[:4]),
                             dict(rp0, call=call, inplace=inplace))

        # ---- make_molecules_whole
        for inplace in (False, True):
            t_call = md.Trajectory(orig.copy(), top, time=t.time.copy(), unitcell_lengths=cell0[0].copy(), unitcell_angles=cell0[1].copy())
            before = t_call.xyz.copy()
            try:
                res = t_call.make_molecules_whole(inplace=inplace)
            except Exception as e:
                viol("whole|raises", "make_molecules_whole raised %s: %s" % (type(e).__name__, e), dict(rp0, inplace=inplace))
                continue
            ctx.count("make_molecules_whole calls")
            common_checks("make_molecules_whole", res, inplace, before)
            rp = dict(rp0, call="make_molecules_whole", inplace=inplace)
            new = res.xyz.astype(np.float64)
            for f in range(nfr):
                fr = lattice_frac(B[f], new[f] - orig[f].astype(np.float64))
                moved = bool(np.abs(np.rint(fr)).max() > 0)
                ctx.case(desc if len(ctx.samples) < 4 else None, (k, f, "whole", inplace) if moved else None)
                if np.abs(fr - np.rint(fr)).max() > 2e-3:
                    viol("whole|not-lattice", "make_molecules_whole moved an atom by a vector that is not a lattice vector (fractional part %.4g, %s cell)" % (np.abs(fr - np.rint(fr)).max(), kind), rp)
                    continue
                for (i, j) in bond_idx:
                    got = np.linalg.norm(new[f, j] - new[f, i])
                    want = np.sqrt(brute_min(B[f], orig[f, j].astype(np.float64) - orig[f, i].astype(np.float64)))
                    if abs(got - want) > 2e-4:
                        ordinary = all(a < b for a, b in order)
                        viol("whole|bond-not-minimum-image|%s" % ("ordinary-labelling" if ordinary else "parent-after-child"),
                             "after make_molecules_whole the bonded atoms %d-%d are %.4f nm apart, their minimum-image separation is %.4f (%s cell, %d atoms)" % (i, j, got, want, kind, n), rp)
                        break
            geometry_checks("make_molecules_whole", res, rp)
            if not inplace:
                for f in range(nfr):
                    reqs.append("imgwhole ha %s %s %s" % (",".join("%d-%d" % b for b in order) or "-", " ".join(rat(x) for x in t.unitcell_vectors[f].ravel()),
                                                        " ".join(rat(x) for x in orig[f].ravel())))
                    meta.append(("whole", k, desc, rp, (f, new[f], orig[f].astype(np.float64))))
                whole_out = res.xyz.copy()
                # an explicit sorted_bonds argument in the same order gives the same result
                t2 = md.Trajectory(orig.copy(), top, unitcell_lengths=cell0[0].copy(), unitcell_angles=cell0[1].copy())
                r2 = t2.make_molecules_whole(sorted_bonds=np.array(order, dtype=np.int32).reshape(-1, 2))
                if not np.array_equal(r2.xyz, res.xyz):
                    viol("whole|sorted_bonds-argument", "make_molecules_whole(sorted_bonds=<default order>) differs from the default call", rp)

        # ---- image_molecules
        molsets = top.find_molecules()
        big = sorted(molsets, key=lambda m: -len(m))
        for make_whole in (True, False):
            if not make_whole and mode != "mols":
                continue                                    # without make_whole the input molecules must already be whole
            for anchors_mode in ("explicit1", "explicit2", "guessed"):
                if anchors_mode == "explicit2" and len(big) < 2:
                    continue
                inplace = rng.random() < 0.5
                anchors = None if anchors_mode == "guessed" else big[:1 if anchors_mode == "explicit1" else 2]
                t_call = md.Trajectory(orig.copy(), top, time=t.time.copy(), unitcell_lengths=cell0[0].copy(), unitcell_angles=cell0[1].copy())
                before = t_call.xyz.copy()
                try:
                    res = t_call.image_molecules(inplace=inplace, anchor_molecules=anchors, make_whole=make_whole)
                except ValueError as e:
                    if anchors is None and "anchor" in str(e):
                        ctx.count("guessed anchors: heuristic found none (documented ValueError)")
                        continue
                    viol("image|raises", "image_molecules raised %s: %s" % (type(e).__name__, e), dict(rp0, anchors=anchors_mode, make_whole=make_whole))
                    continue
                except Exception as e:
                    viol("image|raises", "image_molecules raised %s: %s" % (type(e).__name__, e), dict(rp0, anchors=anchors_mode, make_whole=make_whole))
                    continue
                ctx.count("image_molecules calls")
                tag = "image_molecules"
                rp = dict(rp0, call=tag, inplace=inplace, anchors=anchors_mode, make_whole=make_whole)
                common_checks(tag, res, inplace, before)
                new = res.xyz.astype(np.float64)
                used_anchors = anchors if anchors is not None else top.guess_anchor_molecules()
                anchor_atoms = [sorted(a.index for a in m) for m in used_anchors]
                others = [sorted(a.index for a in m) for m in molsets if m not in used_anchors]
                for f in range(nfr):
                    disp = new[f] - orig[f].astype(np.float64)
                    fr = lattice_frac(B[f], disp - disp[anchor_atoms[0][0]])
                    ctx.case(None, (k, f, "image", anchors_mode, make_whole))
                    if np.abs(fr - np.rint(fr)).max() > 2e-3:
                        viol("image|not-translation-plus-lattice", "image_molecules: displacements differ between atoms by a vector that is not a lattice vector (fractional part %.4g, %s cell, anchors %s)" % (
                            np.abs(fr - np.rint(fr)).max(), kind, anchors_mode), rp)
                        continue
                    if make_whole:
                        for (i, j) in bond_idx:
                            got = np.linalg.norm(new[f, j] - new[f, i])
                            want = np.sqrt(brute_min(B[f], orig[f, j].astype(np.float64) - orig[f, i].astype(np.float64)))
                            if abs(got - want) > 2e-4:
                                viol("image|bond-not-minimum-image", "after image_molecules the bonded atoms %d-%d are %.4f nm apart, minimum-image separation %.4f" % (i, j, got, want), rp)
                                break
                    else:
                        for m in anchor_atoms + others:
                            dm = disp[m] - disp[m[0]]
                            if np.abs(dm).max() > 2e-5 + 1e-6 * np.abs(new[f]).max():
                                viol("image|molecule-not-a-unit", "image_molecules(make_whole=False) moved the atoms of one molecule by different vectors (%.4g nm apart)" % np.abs(dm).max(), rp)
                                break
                    # non-anchor molecules vs the model: T from an atom of the first anchor
                    if others and not (make_whole and mode == "atoms" and False):
                        pre = whole_out[f].astype(np.float64) if make_whole else orig[f].astype(np.float64)
                        a0 = anchor_atoms[0][0]
                        T = new[f, a0] - pre[a0]
                        flat = [a for m in others for a in m]
                        reqs.append("imgwrap %d %s %s %s %s %s" % (len(others), " ".join(str(len(m)) for m in others), " ".join(map(str, flat)),
                                                                " ".join(rat(x) for x in t.unitcell_vectors[f].ravel()), " ".join(rat(x) for x in T),
                                                                " ".join(rat(x) for x in pre.ravel())))
                        meta.append(("wrap", k, desc, rp, (f, new[f], flat)))
                geometry_checks(tag, res, rp)

    model = ctx.driver.query(reqs) if ctx.driver_ok and reqs else [None] * len(reqs)
    skipped = 0
    for (what, k, desc, rp, extra), m in zip(meta, model):
        if m is None:
            continue
        if what == "order":
            ctx.count("placement orders compared")
            parts = m.split(" V ")
            mo = [] if parts[0] == "-" else [tuple(int(x) for x in p.split("-")) for p in parts[0].split(",")]
            if mo != extra:
                ctx.broke("correspondence:placement-order", "case %d: the bond order handed to the kernel is %s, the model of _bonds_in_placement_order gives %s" % (k, extra[:12], mo[:12]))
            if parts[1].strip() != "1":
                ctx.broke("model:placement-order-valid", "case %d: model order not valid" % k)
        elif what == "whole":
            f, new, old = extra
            if not m.startswith("P "):
                ctx.broke("driver:imgwhole", m[:200])
                continue
            body, marg = m[2:].split(" M ")
            from fractions import Fraction
            if float(Fraction(marg)) < 1e-3:
                skipped += 1
                continue
            P = np.array([float(Fraction(x)) for x in body.split()]).reshape(-1, 3)
            ctx.count("whole frames compared with the model")
            err = np.abs(P - new).max()
            if err > 2e-5 + 2e-6 * np.abs(old).max():
                ctx.broke("correspondence:make_whole", "case %d frame %d (%s cell, %d atoms): positions differ from the model by %.4g nm" % (k, f, desc["cell"], desc["n_atoms"], err))
        elif what == "wrap":
            f, new, flat = extra
            if not m.startswith("P "):
                ctx.broke("driver:imgwrap", m[:200])
                continue
            body, marg = m[2:].split(" M ")
            from fractions import Fraction
            if float(Fraction(marg)) < 1e-3:
                skipped += 1
                continue
            P = np.array([float(Fraction(x)) for x in body.split()]).reshape(-1, 3)
            ctx.count("wrapped frames compared with the model")
            err = np.abs(P[flat] - new[flat]).max()
            if err > 4e-5 + 4e-6 * np.abs(new).max():
                ctx.broke("correspondence:wrap_mols", "case %d frame %d (%s cell): non-anchor molecules differ from the model by %.4g nm" % (k, f, desc["cell"], err))
    ctx.counters["model comparisons skipped near a rounding tie"] = skipped
    # ---- solvated systems (a solute, waters, ions: enough molecules for the anchors to be guessed), one after the other with the same
    # numbers of atoms and bonds but the molecules stored in another order, each topology released before the next is built: whatever
    # image_molecules works out about one topology must not be applied to another
    import gc

    def solvated(seed_):
        r2 = np.random.RandomState(seed_)
        kind_, box_ = cells(rng)
        box_ = box_.astype(np.float64) * max(1.0, 1.6 / width(box_.astype(np.float64)))
        mols_ = [("SOL", 12)] + [("HOH", 3)] * 14 + [("NA", 1)] * 2
        order_ = list(r2.permutation(len(mols_)))
        top_ = md.Topology(); ch_ = top_.add_chain()
        pos_, bonds_ = [], []
        for mi in order_:
            nm, sz = mols_[mi]
            res_ = top_.add_residue(nm, ch_)
            root_ = r2.rand(3) @ box_
            loc = [root_]
            first = len(pos_)
            for k_ in range(1, sz):
                d_ = r2.normal(size=3); d_ = d_ / np.linalg.norm(d_) * r2.uniform(0.09, 0.15)
                par = r2.randint(0, k_) if nm == "SOL" else 0
                loc.append(loc[par] + d_); bonds_.append((first + par, first + k_))
            for k_ in range(sz):
                top_.add_atom("%s%d" % (nm[0], k_), md.element.carbon, res_)
            pos_ += loc
        atoms_ = list(top_.atoms)
        for a_, b_ in bonds_:
            top_.add_bond(atoms_[a_], atoms_[b_])
        whole_ = np.array(pos_)
        shift_ = np.array([[r2.randint(-2, 3) for _ in range(3)] for _ in range(len(pos_))], dtype=np.float64) @ box_
        t_ = md.Trajectory((whole_ + shift_)[None].astype(np.float32), top_)
        t_.unitcell_vectors = box_[None].astype(np.float32)
        return kind_, box_, t_, bonds_

    for k in range(ctx.n(10, 60)):
        kind_, box_, t_, bonds_ = solvated(1000 + k)
        ctx.case(None, ("solvated", k)); ctx.count("solvated systems imaged with guessed anchors")
        try:
            with warnings.catch_warnings():
                warnings.simplefilter("ignore")
                res_ = t_.image_molecules(inplace=False)
        except ValueError as e:
            if "anchor" in str(e):
                ctx.count("guessed anchors: heuristic found none (documented ValueError)")
                continue
            viol("image|solvated|raises", "image_molecules() on a solvated system raised %s" % e, dict(case=k))
            continue
        new_ = res_.xyz[0].astype(np.float64); old_ = t_.xyz[0].astype(np.float64)
        Bf = t_.unitcell_vectors[0].astype(np.float64)
        disp_ = new_ - old_
        fr_ = lattice_frac(Bf, disp_ - disp_[0])
        if np.abs(fr_ - np.rint(fr_)).max() > 2e-3:
            viol("image|not-translation-plus-lattice", "image_molecules() with guessed anchors on a solvated system (%s cell): atoms moved by vectors that differ by a non-lattice vector" % kind_, dict(case=k, seed=ctx.seed))
        for (i_, j_) in bonds_:
            got_ = float(np.linalg.norm(new_[i_] - new_[j_]))
            want_ = float(np.sqrt(brute_min(Bf, old_[j_] - old_[i_])))
            if abs(got_ - want_) > 2e-4:
                viol("image|bond-not-minimum-image", "after image_molecules() with guessed anchors on a solvated system (the %dth of a series with the same composition, molecules stored in another order) the bonded atoms %d-%d are %.4f nm apart, minimum-image separation %.4f" % (k + 1, i_, j_, got_, want_), dict(case=k, seed=ctx.seed))
                break
        # the same Topology object edited in place, atom and bond counts unchanged: an atom of the solute is deleted and put back, bonded
        # to a water instead of to its old neighbour; the molecules are now other sets of atoms
        top_ = t_.topology
        sol_ = [a.index for a in top_.atoms if a.residue.name == "SOL"]
        wat_ = [a.index for a in top_.atoms if a.residue.name == "HOH"]
        leaf_ = [i for i in sol_ if sum(1 for b in bonds_ if i in b) == 1]
        if leaf_ and wat_:
            i_ = leaf_[-1]
            res_i = top_.atom(i_).residue
            place_ = [a.index for a in res_i.atoms].index(i_)
            top_.delete_atom_by_index(i_)
            top_.insert_atom("CX", md.element.carbon, res_i, index=i_, rindex=place_)
            j_ = wat_[0]
            top_.add_bond(top_.atom(i_), top_.atom(j_))
            bonds2_ = [b for b in bonds_ if i_ not in b] + [(i_, j_)]
            xyz2_ = t_.xyz.copy()
            xyz2_[0, i_] = xyz2_[0, j_] + np.array([0.11, 0.0, 0.0], dtype=np.float32) + (np.array([1, -1, 2]) @ box_).astype(np.float32)
            t2_ = md.Trajectory(xyz2_, top_); t2_.unitcell_vectors = t_.unitcell_vectors.copy()
            ctx.case(None, ("solvated-edited", k)); ctx.count("solvated systems re-imaged after an in-place edit of the topology")
            try:
                with warnings.catch_warnings():
                    warnings.simplefilter("ignore")
                    r2_ = t2_.image_molecules(inplace=False)
                n2_ = r2_.xyz[0].astype(np.float64); o2_ = t2_.xyz[0].astype(np.float64)
                for (a_, b_) in bonds2_:
                    got_ = float(np.linalg.norm(n2_[a_] - n2_[b_])); want_ = float(np.sqrt(brute_min(Bf, o2_[b_] - o2_[a_])))
                    if abs(got_ - want_) > 2e-4:
                        viol("image|bond-not-minimum-image|edited-topology", "image_molecules() with guessed anchors after the same Topology object was edited in place (an atom re-bonded, atom and bond counts unchanged): bonded atoms %d-%d end %.4f nm apart, minimum-image separation %.4f" % (a_, b_, got_, want_), dict(case=k, seed=ctx.seed))
                        break
            except ValueError as e:
                if "anchor" not in str(e):
                    viol("image|solvated|raises", "image_molecules() after an in-place edit raised %s" % e, dict(case=k))
            del t2_
        del t_, res_
        gc.collect()
    # ---- a caller-supplied sorted_bonds: usable ones (a list of pairs, int64) give what the default order gives, unusable ones (an index
    # beyond the last atom, a negative one) are refused — in a child process: the kernels index the coordinates with them unchecked
    import subprocess, sys, textwrap, json
    code = textwrap.dedent("""
        import sys, json
        sys.path.insert(0, %r)
        import mdv_boot  # noqa: F401
        import numpy as np, mdtraj as md
        top = md.Topology(); ch = top.add_chain(); r = top.add_residue("ALA", ch)
        at = [top.add_atom("C", md.element.carbon, r) for _ in range(4)]
        top.add_bond(at[0], at[1]); top.add_bond(at[2], at[3])
        xyz = np.array([[[0, 0, 0], [1.9, 0, 0], [1, 1, 1], [1, 2.95, 1]]], dtype=np.float32)
        t = md.Trajectory(xyz, top, unitcell_lengths=[[2, 2, 2]], unitcell_angles=[[90, 90, 90]])
        ref = t.make_molecules_whole().xyz.tolist()
        out = {}
        for name, sb in (("list", [[0, 1], [2, 3]]), ("int64", np.array([[0, 1], [2, 3]], np.int64)), ("beyond", [[0, 4]]), ("far-beyond", [[0, 100000000]]),
                         ("negative", [[0, -1]]), ("very-negative", [[0, -70000]])):
            for fname in ("whole", "image"):
                try:
                    if fname == "whole":
                        r_ = t.make_molecules_whole(sorted_bonds=sb)
                    else:
                        r_ = t.image_molecules(sorted_bonds=sb, anchor_molecules=[{at[0], at[1]}], other_molecules=[{at[2], at[3]}])
                    out[name + "|" + fname] = ["returned", bool(fname != "whole" or r_.xyz.tolist() == ref)]
                except Exception as e:
                    out[name + "|" + fname] = ["raised", type(e).__name__]
                print("RESULT " + json.dumps(out)); sys.stdout.flush()
    """) % (os.path.dirname(os.path.dirname(os.path.abspath(__file__))),)
    ctx.case(None, ("sorted-bonds-argument",)); ctx.count("calls with a caller-supplied sorted_bonds (child process)", 12)
    try:
        pr = subprocess.run([sys.executable, "-c", code], capture_output=True, text=True, timeout=300)
        lines = [l for l in pr.stdout.splitlines() if l.startswith("RESULT ")]
        got = json.loads(lines[-1][7:]) if lines else {}
        for name in ("list", "int64"):
            for fname in ("whole", "image"):
                r_ = got.get(name + "|" + fname)
                if r_ != ["returned", True]:
                    viol("whole|sorted_bonds-argument|usable-refused", "sorted_bonds given as %s to %s: %s (the default order as an int32 array is accepted)" % (
                        name, fname, "the process ended" if r_ is None else r_), dict(kind=name, function=fname))
        for name in ("beyond", "far-beyond", "negative", "very-negative"):
            for fname in ("whole", "image"):
                r_ = got.get(name + "|" + fname)
                if r_ is None or r_[0] != "raised":
                    viol("whole|sorted_bonds-argument|index-not-refused", "sorted_bonds with an atom index %s the coordinates given to %s: %s" % (
                        name, "make_molecules_whole" if fname == "whole" else "image_molecules",
                        "the process ended (exit %s)" % pr.returncode if r_ is None else "accepted; the kernel reads and writes outside the frame"), dict(kind=name, function=fname))
    except subprocess.TimeoutExpired:
        ctx.broke("harness:sorted-bonds-child", "the child process did not finish in 300 s")
    for key, (what, rp) in seen.items():
        ctx.violation(key, what, rp)


def replay(ctx, path):
    print(json.load(open(path))["what"])
    return 1
