"""C07: angles and dihedrals equal their geometric definitions, periodic or not.
Correspondence: md.compute_angles / compute_dihedrals (opt and reference paths; no cell, orthorhombic, triclinic) vs the exact
rational invariants of Model/Angles.lean (driver `ang`, `dih`): cos(angle) and (sin, cos) of the dihedral are compared;
named torsions (phi/psi/omega indices) vs `tors`.
Oracle: float64 re-evaluation from brute-force minimum-image bond vectors; reversal, mirror image, range, opt-vs-reference."""
import warnings
from fractions import Fraction

import numpy as np

from props.c05 import cells, rat, width, brute_min
from props.c04 import enc as enc_top, dump as dump_top


def fr(x):
    return float(Fraction(x))


def make(md, rng, mode, n_atoms=8):
    top = md.Topology()
    ch = top.add_chain()
    r = top.add_residue("X", ch)
    for i in range(n_atoms):
        top.add_atom("C%d" % i, md.element.carbon, r)
    if mode == "none":
        box = None
        span = 2.0
    else:
        while True:
            kind, box = cells(rng)
            if (mode == "ortho") == (kind in ("cubic", "ortho")):
                break
        span = float(width(box))
    # a short chain molecule (bond length ~0.15) so that bonded atoms are well inside half the cell width
    xyz = np.zeros((1, n_atoms, 3))
    p = np.array([rng.uniform(0, span) for _ in range(3)])
    for a in range(n_atoms):
        xyz[0, a] = p
        step = np.array([rng.gauss(0, 1) for _ in range(3)])
        style = rng.random()
        if style < 0.15 and a >= 2:      # near-collinear / near-planar continuation
            # deviations from a straight continuation of about 10, 2, 0.5 and 0.1 degrees (alkyne / nitrile-like units)
            step = (xyz[0, a] - xyz[0, a - 1]) + np.array([rng.gauss(0, 1) for _ in range(3)]) * rng.choice([0.02, 0.004, 0.001, 0.0003])
        p = p + step / np.linalg.norm(step) * rng.uniform(0.1, 0.2)
    if box is not None:     # split the molecule across faces: shift atoms by random lattice vectors
        for a in range(n_atoms):
            if rng.random() < 0.6:
                ijk = [rng.randrange(-3, 4) for _ in range(3)]
                xyz[0, a] += ijk[0] * box[0] + ijk[1] * box[1] + ijk[2] * box[2]
    xyz = (np.round(xyz * 1024) / 1024).astype(np.float32)
    t = md.Trajectory(xyz, top)
    if box is not None:
        t.unitcell_vectors = box[None]
    return t


def bond(box, p, q):
    r = q - p
    if box is None:
        return r
    base = -np.rint(np.linalg.solve(box.T, r))
    best, bv = None, None
    for i in range(-2, 3):
        for j in range(-2, 3):
            for k in range(-2, 3):
                v = r + (base[0] + i) * box[0] + (base[1] + j) * box[1] + (base[2] + k) * box[2]
                d = float(v @ v)
                if best is None or d < best:
                    best, bv = d, v
    return bv


def build_protein(md, rng):
    top = md.Topology()
    E = md.element
    nch = rng.choice([1, 2])
    chains = [top.add_chain() for _ in range(nch)]
    # the residues of two chains are created alternately in a quarter of the two-chain topologies (residue.index then interleaves the
    # chains): the neighbours of a residue are those before and after it in ITS chain
    plan = [(ci, ri) for ci in range(nch) for ri in range(rng.randrange(2, 6))]
    if nch == 2 and rng.random() < 0.5:
        plan.sort(key=lambda p: (p[1], p[0]))
    for ci, ri in plan:
        ch = chains[ci]
        if True:
            r = top.add_residue(rng.choice(["ALA", "GLY", "SER", "HOH", "LIG"]), ch, ri + 1)
            names = ["N", "CA", "C", "O", "CB"]
            if r.name in ("HOH", "LIG"):
                names = ["O", "H1", "H2"] if r.name == "HOH" else ["C1", "N", "CA"]
            for n in names:
                if rng.random() < 0.1:
                    continue          # missing atom
                top.add_atom(n, E.carbon if n[0] == "C" else (E.nitrogen if n[0] == "N" else (E.oxygen if n[0] == "O" else E.hydrogen)), r)
            if rng.random() < 0.1:
                top.add_atom("CA", E.carbon, r)      # duplicated name: the last one is used
    return top


def run(ctx):
    warnings.filterwarnings("ignore")
    import mdtraj as md
    ctx.rule = ("chain molecules on a 1/1024 nm grid (random, near-collinear and near-planar continuations, atoms shifted by lattice vectors so "
                "that molecules are split across faces) x no cell / orthorhombic / triclinic cells of C05 x opt in {True, False}; named torsions on "
                "random protein-like topologies (chain breaks, terminal residues, missing and duplicated atoms, several chains, non-protein residues); "
                "non-trivial = distinct (system, index tuple) with a cell or a non-planar geometry")
    ctx.assumptions += ["libm acos/atan2f: the returned angle is compared through cos (angles) and through atan2 of the exact invariants (dihedrals) with 3e-4 rad tolerance "
                        "away from ill-conditioned geometry (|sin| of a bond angle below 2e-2, bond vectors nearly parallel in a dihedral, or a float32 condition estimate - coordinate magnitude x 2^-22 over the plane-normal lengths - above 1e-4 rad), which is excluded and counted"]
    rng = ctx.rng
    seen = {}

    def viol(key, what, rp):
        seen.setdefault(key, (what, rp))
    reqs, meta = [], []
    for k in range(ctx.n(48, 400)):
        mode = ["none", "ortho", "tri", "mixed"][k % 4]
        if mode == "mixed":
            # per-frame varying cell shape: the first frame orthorhombic, later frames skewed
            parts = [make(md, rng, "ortho"), make(md, rng, "tri"), make(md, rng, "tri")]
            t = md.join(parts, check_topology=False)
        else:
            t = make(md, rng, mode)
        n = t.n_atoms
        # index lists: the chain walk, rows that share two or three atoms with the row before them in every alignment (torsions listed
        # bond by bond over a branched molecule), repeated rows, random rows of distinct atoms
        trip = [(i, i + 1, i + 2) for i in range(n - 2)] + [(2, 0, 5)]
        quad = [(i, i + 1, i + 2, i + 3) for i in range(n - 3)] + [(0, 2, 5, 7)]
        for _ in range(6):
            q = quad[-1]
            others = [a for a in range(n) if a not in q]
            style = rng.randrange(6)
            if style == 0:      # (a,b,c,d) -> (b,c,e,f)
                e, f_ = rng.sample([a for a in range(n) if a not in (q[1], q[2])], 2); quad.append((q[1], q[2], e, f_))
            elif style == 1:    # (a,b,c,d) -> (b,c,d,e)
                quad.append((q[1], q[2], q[3], rng.choice(others)))
            elif style == 2:    # (a,b,c,d) -> (c,d,e,f)
                e, f_ = rng.sample(others, 2); quad.append((q[2], q[3], e, f_))
            elif style == 3:    # same central bond, other ends
                e, f_ = rng.sample(others, 2); quad.append((e, q[1], q[2], f_))
            elif style == 4:
                quad.append(q)
            else:
                quad.append(tuple(rng.sample(range(n), 4)))
            t3 = trip[-1]
            o3 = [a for a in range(n) if a not in t3]
            trip.append([(t3[1], t3[2], rng.choice(o3)), (t3[2], rng.choice(o3), t3[0]), tuple(rng.sample(range(n), 3)), t3][rng.randrange(4)])
        trip, quad = np.array(trip), np.array(quad)
        orth = mode == "ortho" and bool(np.allclose(t.unitcell_angles, 90))
        kind = "none" if mode == "none" else ("ortho" if orth else "tri")
        res = {}
        for opt in (True, False):
            # the flag as callers produce it: a Python bool, a numpy bool (the result of an array test) or an integer
            flag = [True, np.True_, 1][(k + int(opt)) % 3]
            res[("a", opt)] = md.compute_angles(t, trip, periodic=flag, opt=opt)
            res[("d", opt)] = md.compute_dihedrals(t, quad, periodic=flag, opt=opt)
        rev_a = md.compute_angles(t, trip[:, ::-1], periodic=True)
        rev_d = md.compute_dihedrals(t, quad[:, ::-1], periodic=True)
        mir_d = None
        if mode == "none":
            tm = md.Trajectory(t.xyz * np.array([-1, 1, 1], dtype=np.float32), t.topology)
            mir_d = md.compute_dihedrals(tm, quad, periodic=False)
        rnd = "hz" if kind == "ortho" else "ha"
        for f in range(t.n_frames):
            boxf = t.unitcell_vectors[f] if mode != "none" else np.eye(3, dtype=np.float32)
            box = boxf.astype(np.float64) if mode != "none" else None
            X = t.xyz[f].astype(np.float64)
            boxs = " ".join(rat(x) for x in boxf.ravel())
            fmode = mode if mode != "mixed" else "mixed-frame%d" % f
            for ti, tr in enumerate(trip):
                reqs.append("ang %s %s %s %s" % (kind, rnd, boxs, " ".join(rat(x) for x in t.xyz[f, tr].ravel())))
                meta.append(("a", k, fmode, box, X[tr], {o: float(res[("a", o)][f, ti]) for o in (True, False)}, float(rev_a[f, ti]), None, tuple(int(x) for x in tr)))
            for qi, q in enumerate(quad):
                reqs.append("dih %s %s %s %s" % (kind, rnd, boxs, " ".join(rat(x) for x in t.xyz[f, q].ravel())))
                meta.append(("d", k, fmode, box, X[q], {o: float(res[("d", o)][f, qi]) for o in (True, False)}, float(rev_d[f, qi]),
                             None if mir_d is None else float(mir_d[f, qi]), tuple(int(x) for x in q)))
    model = ctx.driver.query(reqs) if ctx.driver_ok else [None] * len(reqs)
    excluded = 0
    for (what, k, mode, box, P, got, rev, mir, idx), m in zip(meta, model):
        rp = dict(kind="angle" if what == "a" else "dihedral", cell=None if box is None else box.tolist(), positions=P.tolist(), indices=idx, got=got)
        ctx.count("angles" if what == "a" else "dihedrals")
        # float64 oracle from brute-force minimum-image bond vectors
        if what == "a":
            v1, v2 = bond(box, P[1], P[0]), bond(box, P[1], P[2])
            c = float(v1 @ v2 / np.linalg.norm(v1) / np.linalg.norm(v2))
            want = float(np.arccos(np.clip(c, -1, 1)))
            # float32 conditioning: coordinates (and lattice shifts) of magnitude m carry errors ~ m * 2^-22 in the bond vectors
            delta = 2.0 ** -22 * max(1.0, float(np.abs(P).max()), 0.0 if box is None else float(np.abs(box).max()))
            ill = abs(np.sin(want)) < 2e-2 or delta * (1 / np.linalg.norm(v1) + 1 / np.linalg.norm(v2)) / max(abs(np.sin(want)), 1e-9) > 1e-4
            nontriv = (k, idx) if (box is not None or not ill) else None
        else:
            b1, b2, b3 = bond(box, P[0], P[1]), bond(box, P[1], P[2]), bond(box, P[2], P[3])
            c1, c2 = np.cross(b2, b3), np.cross(b1, b2)
            p1, p2 = float(b1 @ c1) * np.linalg.norm(b2), float(c1 @ c2)
            want = float(np.arctan2(p1, p2))
            delta = 2.0 ** -22 * max(1.0, float(np.abs(P).max()), 0.0 if box is None else float(np.abs(box).max()))
            n1, n2, n3 = np.linalg.norm(b1), np.linalg.norm(b2), np.linalg.norm(b3)
            if box is None and float(np.abs(P).max()) < 4096:
                # grid coordinates without a cell: the float32 bond vectors are exact differences; only the products round
                delta = 2.0 ** -22 * max(n1, n2, n3)
            # the dihedral is the angle between the plane normals c1, c2: a perturbation delta of the bond vectors turns them by at most this
            sens = delta * ((n2 + n3) / max(np.linalg.norm(c1), 1e-30) + (n1 + n2) / max(np.linalg.norm(c2), 1e-30))
            ill = np.hypot(p1, p2) < 2e-3 * (n1 * (b2 @ b2) * n3) or sens > 1e-4
            nontriv = (k, idx) if (box is not None or abs(np.sin(want)) > 0.1) else None
        ctx.case(rp if nontriv and len(ctx.samples) < 4 else None, nontriv)
        if ill:
            excluded += 1
            continue

        def adiff(x, y):
            d = abs(x - y)
            return min(d, abs(d - 2 * np.pi)) if what == "d" else d
        for opt in (True, False):
            g = got[opt]
            lo, hi = (0.0, np.pi) if what == "a" else (-np.pi, np.pi)
            if not (lo - 1e-6 <= g <= hi + 1e-6):
                viol("range|" + what, "%s %.6f outside [%g, %g]" % (rp["kind"], g, lo, hi), rp)
            if adiff(g, want) > 3e-4:
                viol("%s|value|%s|%s" % (rp["kind"], "opt" if opt else "ref", mode),
                     "compute_%ss(opt=%s) on atoms %s in %s cell: %.6f, geometric definition on minimum-image bond vectors gives %.6f" % (rp["kind"], opt, idx, mode, g, want), rp)
        if adiff(got[True], got[False]) > 3e-4:
            viol("%s|opt-vs-ref|%s" % (rp["kind"], mode), "%s: opt %.6f, reference %.6f" % (rp["kind"], got[True], got[False]), rp)
        if adiff(rev, got[True]) > 3e-4:
            viol("%s|reversal" % rp["kind"], "%s changes under reversal of the atom order: %.6f vs %.6f" % (rp["kind"], got[True], rev), rp)
        if mir is not None and adiff(mir, -got[True]) > 3e-4:
            viol("dihedral|mirror", "dihedral of the mirror image is %.6f, expected %.6f" % (mir, -got[True]), rp)
        if m is None:
            continue
        parts = m.split()
        margin, gap, ties = fr(parts[5]), fr(parts[7]), int(parts[9])
        if margin < 1e-4 or ties > 1 or gap < 1e-6:
            excluded += 1
            continue
        if what == "a":
            num, n1, n2 = fr(parts[1]), fr(parts[2]), fr(parts[3])
            mw = float(np.arccos(np.clip(num / np.sqrt(n1 * n2), -1, 1)))
        else:
            tpl, nb2, p2m = fr(parts[1]), fr(parts[2]), fr(parts[3])
            mw = float(np.arctan2(tpl * np.sqrt(nb2), p2m))
        if adiff(got[True], mw) > 3e-4:
            ctx.broke("correspondence:" + rp["kind"], "%s cell atoms %s: impl %.6f model %.6f" % (mode, idx, got[True], mw))
    ctx.counters["excluded ill-conditioned or near ties"] = excluded

    # ---- a long trajectory (several hundred frames) whose cell changes from frame to frame, the molecule split across faces in every frame:
    # every frame inside the trajectory must give what it gives alone, in both code paths (blocked or batched kernels must carry the cell along)
    for mode_ in ("ortho", "tri"):
        parts = []
        base_ = make(md, rng, mode_)
        nf_ = 300 if ctx.quick else 700
        xyz_ = np.repeat(base_.xyz, nf_, axis=0).copy()
        vec_ = np.repeat(base_.unitcell_vectors, nf_, axis=0).astype(np.float64)
        whole_ = xyz_[0].astype(np.float64)
        for f in range(nf_):
            sc = 1.0 + 0.2 * ((f * 37) % 101) / 101.0                   # a cell that breathes: no two frames 256 apart alike
            vec_[f] = base_.unitcell_vectors[0].astype(np.float64) * sc
            shift = np.array([[((f + 3 * a) % 5 - 2), ((2 * f + a) % 3 - 1), ((f + a) % 4 - 2)] for a in range(base_.n_atoms)], dtype=np.float64)
            xyz_[f] = (whole_ + shift @ vec_[f]).astype(np.float32)
        tl = md.Trajectory(xyz_, base_.topology)
        tl.unitcell_vectors = vec_.astype(np.float32)
        n_ = tl.n_atoms
        trip_ = np.array([(i, i + 1, i + 2) for i in range(n_ - 2)])
        quad_ = np.array([(i, i + 1, i + 2, i + 3) for i in range(n_ - 3)])
        ctx.case(None, ("long-varying-cell", mode_)); ctx.count("long trajectories with a varying cell")
        for nm_, fn_, idx_ in (("compute_angles", md.compute_angles, trip_), ("compute_dihedrals", md.compute_dihedrals, quad_)):
            full_o = fn_(tl, idx_, periodic=True, opt=True)
            full_r = fn_(tl, idx_, periodic=True, opt=False)
            bad_ = None
            for f in sorted(set([0, 1, 255, 256, 257, nf_ - 1] + [rng.randrange(nf_) for _ in range(12)])):
                alone = fn_(tl[f], idx_, periodic=True, opt=True)[0]
                d1 = np.abs(full_o[f] - alone); d2 = np.abs(full_o[f] - full_r[f])
                if nm_ == "compute_dihedrals":
                    d1 = np.minimum(d1, 2 * np.pi - d1); d2 = np.minimum(d2, 2 * np.pi - d2)
                if d1.max() > 1e-4 or d2.max() > 3e-3:
                    bad_ = (f, float(d1.max()), float(d2.max()))
                    break
            if bad_:
                viol("%s|long-trajectory|%s" % (nm_, mode_), "%s on %d frames with a cell that changes from frame to frame (%s): frame %d inside the trajectory differs from the frame alone by %.3g and from the reference path by %.3g" % (
                    nm_, nf_, mode_, bad_[0], bad_[1], bad_[2]), dict(mode=mode_, frame=bad_[0]))
    # ---- indices beyond the range of the 32-bit integers the kernels take must be refused, not wrapped around
    tw = make(md, rng, "none")
    for fn, row in ((md.compute_angles, [0, 1, 2 ** 32 + 2]), (md.compute_dihedrals, [0, 1, 2, 2 ** 32 + 3]), (md.compute_distances, [0, 2 ** 32 + 1])):
        ctx.case(None, ("index-wrap", fn.__name__)); ctx.count("out-of-range index calls")
        try:
            got = fn(tw, np.array([row], dtype=np.int64))
            viol("index|wraps|" + fn.__name__, "%s with the atom index %d (int64) on %d atoms returned %s instead of refusing it" % (fn.__name__, row[-1], tw.n_atoms, got.ravel()[:2]), dict(indices=row))
        except (ValueError, IndexError, OverflowError):
            pass
    # ---- named torsions
    treqs, tmeta = [], []
    for _ in range(ctx.n(40, 300)):
        top = build_protein(md, rng)
        d = dump_top(top)
        for which, fn in (("phi", md.geometry.dihedral.indices_phi), ("psi", md.geometry.dihedral.indices_psi), ("omega", md.geometry.dihedral.indices_omega)):
            treqs.append("tors %s %s" % (which, enc_top(d)))
            tmeta.append((which, fn, top))
    tm = ctx.driver.query(treqs) if ctx.driver_ok else [None] * len(treqs)
    PAT = {"phi": [("C", -1), ("N", 0), ("CA", 0), ("C", 0)], "psi": [("N", 0), ("CA", 0), ("C", 0), ("N", 1)], "omega": [("CA", 0), ("C", 0), ("N", 1), ("CA", 1)]}
    def table_ok(which, idx, top, tag):
        """the rows are the documented atoms of one residue window in one chain, each residue once, none missing (oracle: the topology itself)"""
        atoms = list(top.atoms)
        rows_seen = set()
        rpos = {id(r_): (c_.index, p_) for c_ in top.chains for p_, r_ in enumerate(c_.residues)}     # position of a residue within its chain
        rlist = {c_.index: list(c_.residues) for c_ in top.chains}
        for row in idx.tolist():
            rids = [(rpos[id(atoms[a].residue)][0], rpos[id(atoms[a].residue)][1] - off) for a, (nm, off) in zip(row, PAT[which])]
            ok = all(atoms[a].name == nm for a, (nm, off) in zip(row, PAT[which])) and len(set(rids)) == 1 and len({atoms[a].residue.chain.index for a in row}) == 1
            if not ok or rids[0] in rows_seen:
                viol("torsion|%s%s" % (which, tag), "indices_%s returned %s%s: not the documented atoms of one residue window in one chain (or a residue twice)" % (
                    which, row, " after atoms of the same Topology object were renamed in place" if tag else ""), dict(torsion=which, top=enc_top(dump_top(top))))
                return
            rows_seen.add(rids[0])
        for res in top.residues:
            try:
                want = []
                for nm, off in PAT[which]:
                    ci_, pi_ = rpos[id(res)]
                    r2 = rlist[ci_][pi_ + off] if 0 <= pi_ + off < len(rlist[ci_]) else None
                    if r2 is None:
                        raise KeyError
                    cands = [a.index for a in r2.atoms if a.name == nm]
                    if not cands:
                        raise KeyError
                    want.append(cands[-1])
                if want not in idx.tolist():
                    viol("torsion-missing|%s%s" % (which, tag), "indices_%s misses residue %d (%s)%s" % (which, res.index, want, " after atoms of the same Topology object were renamed in place" if tag else ""),
                         dict(torsion=which, top=enc_top(dump_top(top))))
                    return
            except KeyError:
                pass

    for (which, fn, top), m in zip(tmeta, tm):
        idx = fn(top)
        got = ";".join(",".join(map(str, row)) for row in idx.tolist())
        ctx.case(dict(torsion=which, indices=idx.tolist()) if len(ctx.samples) < 6 else None, (which, enc_top(dump_top(top))) if len(idx) else None)
        ctx.count("named torsion tables")
        atoms = list(top.atoms)
        rows_seen = set()
        rpos = {id(r_): (c_.index, p_) for c_ in top.chains for p_, r_ in enumerate(c_.residues)}     # position of a residue within its chain
        rlist = {c_.index: list(c_.residues) for c_ in top.chains}
        for row in idx.tolist():
            rids = [(rpos[id(atoms[a].residue)][0], rpos[id(atoms[a].residue)][1] - off) for a, (nm, off) in zip(row, PAT[which])]
            ok = all(atoms[a].name == nm for a, (nm, off) in zip(row, PAT[which])) and len(set(rids)) == 1 and len({atoms[a].residue.chain.index for a in row}) == 1
            if not ok or rids[0] in rows_seen:
                viol("torsion|" + which, "indices_%s returned %s: not the documented atoms of one residue window in one chain (or a residue twice)" % (which, row), dict(torsion=which, top=enc_top(dump_top(top))))
            rows_seen.add(rids[0])
        # completeness: every residue that has the full pattern appears
        for res in top.residues:
            try:
                want = []
                for nm, off in PAT[which]:
                    ci_, pi_ = rpos[id(res)]
                    r2 = rlist[ci_][pi_ + off] if 0 <= pi_ + off < len(rlist[ci_]) else None
                    if r2 is None:
                        raise KeyError
                    cands = [a.index for a in r2.atoms if a.name == nm]
                    if not cands:
                        raise KeyError
                    want.append(cands[-1])
                if want not in idx.tolist():
                    viol("torsion-missing|" + which, "indices_%s misses residue %d (%s)" % (which, res.index, want), dict(torsion=which, top=enc_top(dump_top(top))))
            except KeyError:
                pass
        if m is not None:
            nest = [a.index for c_ in top.chains for r_ in c_.residues for a in r_.atoms]      # real index of the k-th atom in chain/residue order
            mrows = [[nest[int(x)] for x in part.split(":")[1].split(",")] for part in m.split(";")] if m else []
            mm = ";".join(",".join(map(str, row)) for row in sorted(mrows))
            got = ";".join(",".join(map(str, row)) for row in sorted(idx.tolist()))
            if mm != got:
                ctx.broke("correspondence:torsion-indices", "%s: impl %s model %s" % (which, got, mm))
    # ---- the same Topology object edited in place between two calls (atoms renamed, as when repairing force-field names): the second
    # call must describe the topology as it is now
    done = set()
    for (which, fn, top) in tmeta:
        if id(top) in done:
            continue
        done.add(id(top))
        cands = [a for a in top.atoms if a.name in ("CA", "N", "C")]
        if not cands:
            continue
        for f2 in (md.geometry.dihedral.indices_phi, md.geometry.dihedral.indices_chi1):
            f2(top)                                           # the call before the edit (whatever it may leave behind)
        for a in rng.sample(cands, min(2, len(cands))):
            a.name = a.name + "X" if rng.random() < 0.6 else {"CA": "C", "C": "CA", "N": "CA"}[a.name]
        for w2, f2 in (("phi", md.geometry.dihedral.indices_phi), ("psi", md.geometry.dihedral.indices_psi), ("omega", md.geometry.dihedral.indices_omega)):
            ctx.case(None, ("renamed", w2, enc_top(dump_top(top)))); ctx.count("named torsion tables after an in-place edit")
            table_ok(w2, f2(top), top, "|after-rename")
    for key, (what, rp) in seen.items():
        ctx.violation(key, what, rp)


def replay(ctx, path):
    import json
    print(json.load(open(path))["what"])
    return 1
