"""C20: existing files are never modified unless overwriting was requested.
Correspondence: Trajectory.save / md.open(mode='w') on pre-existing paths of every registered extension vs the
decision model of Model/Writer.lean (driver `save`); the extension tables are regenerated from the source
(Generated/Tables.lean) and the coverage theorems are re-proved by `decide` on every run.
Oracle: sha256 before/after; the overwritten file against a fresh save; every reader leaves the bytes alone."""
import hashlib
import os
import shutil
import warnings

import numpy as np

import trajfiles as tf

SKIP = {".lh5": "lh5 writer is broken in this environment (baseline failures)", ".gsd": "gsd package not installed"}
BYTE_IDENTICAL = {".xtc", ".trr", ".pdb", ".mdcrd", ".crd", ".lammpstrj", ".xyz", ".gro"}
NEEDS_TOP = lambda e: e not in (".h5", ".pdb", ".pdb.gz", ".gro")
RESTART = {".rst7", ".ncrst"}


def sha(path):
    h = hashlib.sha256()
    if os.path.isdir(path):
        for root, _, files in sorted(os.walk(path)):
            for fn in sorted(files):
                h.update(fn.encode())
                h.update(open(os.path.join(root, fn), "rb").read())
        return "dir:" + h.hexdigest()
    h.update(open(path, "rb").read())
    return h.hexdigest()


def size(path):
    if os.path.isdir(path):
        return sum(os.path.getsize(os.path.join(r, f)) for r, _, fs in os.walk(path) for f in fs)
    return os.path.getsize(path)


def clean(p):
    if os.path.isdir(p):
        shutil.rmtree(p)
    elif os.path.exists(p):
        os.remove(p)


def run(ctx):
    warnings.filterwarnings("ignore")
    import mdtraj as md
    from mdtraj.formats.registry import FormatRegistry
    ctx.rule = ("every extension of Trajectory._savers() and every file-object class x pre-existing content {valid longer file of the same "
                "format, unrelated bytes, directory for dtr} x single/multi-frame x force_overwrite in {False, True}; every loader and "
                "md.open('r') read/seek/tell/len with sha256 before and after; non-trivial = distinct (extension, pre-existing kind, entry point, force)")
    ctx.assumptions.append("the filesystem; gzip members carry an mtime and DCD/NetCDF/HDF5/dtr headers a creation stamp: for those the overwritten file is compared with a fresh save by size and by loaded content, for the others byte for byte")
    ctx.assumptions += ["%s skipped: %s" % kv for kv in SKIP.items()]
    t_small = tf.make_traj(3, 12)
    t_one = tf.make_traj(1, 12)
    t_long = tf.make_traj(9, 12, seed=5)
    top = os.path.join(ctx.scratch, "top.pdb")
    t_small[0].save(top)
    savers = sorted(t_small._savers().keys())
    seen = {}
    reqs = []
    fsreqs = []

    def listing(d_):
        return {nm: sha(os.path.join(d_, nm)) for nm in os.listdir(d_) if os.path.isfile(os.path.join(d_, nm))}

    def viol(key, what, rp):
        seen.setdefault(key, (what, rp))

    def ld(ext, p):
        if ext in RESTART:   # numbered restart files (name.rst7.1) have no extension md.load could dispatch on
            return FormatRegistry.loaders[ext](p, top=top)
        return md.load(p, top=top) if NEEDS_TOP(ext) else md.load(p)

    for ext in savers:
        if ext in SKIP:
            continue
        for tname, t in (("multi", t_small), ("single", t_one)):
            for pre in ("longer", "junk", "junk-last", "junk-first"):
                if pre in ("junk-last", "junk-first") and not (ext in RESTART and t.n_frames > 1):
                    continue
                path = os.path.join(ctx.scratch, "Exist_A" + ext)        # mixed case on purpose: the existence test must look at the path as given
                fresh = os.path.join(ctx.scratch, "Fresh_A" + ext)          # same length as the other name: a gzip header holds the file name
                multi_restart = ext in RESTART and t.n_frames > 1
                targets = [path]
                if multi_restart:
                    targets = ["%s.%d" % (path, i + 1) for i in range(t.n_frames)]
                for force in (False, True):
                    for tg in targets + [path, fresh] + ["%s.%d" % (fresh, i + 1) for i in range(3)]:
                        clean(tg)
                    # pre-existing content
                    victim = targets[1] if multi_restart else path
                    if pre == "junk-last":
                        victim = targets[-1]
                    elif pre == "junk-first":
                        victim = targets[0]
                    if pre.startswith("junk"):
                        if ext == ".dtr":
                            os.makedirs(victim)
                            open(os.path.join(victim, "unrelated.bin"), "wb").write(b"unrelated bytes" * 50)
                        else:
                            open(victim, "wb").write(b"unrelated bytes" * 200)
                    else:
                        if ext in RESTART:
                            tmp = os.path.join(ctx.scratch, "victim_src" + ext)
                            clean(tmp)
                            t_long[0].save(tmp)
                            os.replace(tmp, victim)
                        else:
                            t_long.save(victim)
                    before = sha(victim)
                    snap0 = listing(ctx.scratch)
                    raised = None
                    try:
                        t.save(path, force_overwrite=force)
                    except Exception as e:  # noqa: BLE001
                        raised = type(e).__name__
                    # the whole directory against the model (Model/FileSys.lean): which paths exist, which changed, nothing else touched
                    if ext != ".dtr":
                        snap1 = listing(ctx.scratch)
                        names0 = sorted(snap0)
                        ids0 = {nm: "o%d" % i for i, nm in enumerate(names0)}
                        fsreqs.append(("fsys %s %d %s" % (",".join("%s=%s" % (nm, ids0[nm]) for nm in names0) or "-", 1 if force else 0,
                                                          ",".join("%s=N%d" % (os.path.basename(tg), i) for i, tg in enumerate(targets))),
                                       raised is not None, snap0, snap1, ids0, dict(ext=ext, traj=tname, preexisting=pre, force=force)))
                    desc = dict(ext=ext, traj=tname, preexisting=pre, force=force, entry="Trajectory.save")
                    ctx.case(desc, (ext, tname, pre, force, "save"))
                    ctx.count("save:" + ext)
                    reqs.append(("save 1 %d" % (1 if force else 0), raised is not None, ext, desc))
                    if not force:
                        if raised is None:
                            viol("%s|save|no-error" % ext, "save('%s', force_overwrite=False) onto an existing %s path did not raise" % (ext, pre), desc)
                        if not os.path.exists(victim) or sha(victim) != before:
                            viol("%s|save|clobbered" % ext, "save('%s', force_overwrite=False) changed the existing %s file (%s)" % (ext, pre, "raised " + raised if raised else "no error"), desc)
                    else:
                        if raised is not None:
                            viol("%s|save|force-raises" % ext, "save('%s', force_overwrite=True) over a %s file raised %s" % (ext, pre, raised), desc)
                            continue
                        t.save(fresh)
                        pairs = [(path, fresh)] if not multi_restart else [("%s.%d" % (path, i + 1), "%s.%d" % (fresh, i + 1)) for i in range(t.n_frames)]
                        for a, b in pairs:
                            if not os.path.exists(a):
                                viol("%s|save|force-missing" % ext, "save('%s', force_overwrite=True): %s was not written" % (ext, os.path.basename(a)), desc)
                                continue
                            same_bytes = sha(a) == sha(b)
                            if ext in BYTE_IDENTICAL and not same_bytes:
                                viol("%s|save|force-partly-retained" % ext, "after force_overwrite=True over a %s file, '%s' differs byte-wise from a fresh save" % (pre, ext), desc)
                            elif size(a) != size(b):
                                viol("%s|save|force-partly-retained" % ext, "after force_overwrite=True over a %s file, '%s' has %d bytes, a fresh save %d" % (pre, ext, size(a), size(b)), desc)
                            else:
                                try:
                                    x, y = ld(ext, a), ld(ext, b)
                                    if x.n_frames != y.n_frames or not np.array_equal(x.xyz, y.xyz):
                                        viol("%s|save|force-partly-retained" % ext, "after force_overwrite=True the loaded content of '%s' differs from a fresh save" % ext, desc)
                                except Exception as e:  # noqa: BLE001
                                    viol("%s|save|force-unloadable" % ext, "after force_overwrite=True '%s' does not load: %s" % (ext, e), desc)

    # md.open(mode='w') on every file-object class
    for ext in sorted(FormatRegistry.fileobjects.keys()):
        if ext in SKIP:
            continue
        for force in (False, True):
            path = os.path.join(ctx.scratch, "open" + ext)
            clean(path)
            if ext == ".dtr":
                os.makedirs(path); open(os.path.join(path, "x.bin"), "wb").write(b"old" * 100)
            else:
                open(path, "wb").write(b"old content " * 100)
            before = sha(path)
            raised = None
            try:
                f = md.open(path, "w", force_overwrite=force)
                try:
                    f.close()
                except Exception:  # noqa: BLE001
                    pass
            except Exception as e:  # noqa: BLE001
                raised = type(e).__name__
            desc = dict(ext=ext, entry="md.open(mode='w')", force=force)
            ctx.case(desc, (ext, "open", force))
            ctx.count("open-w:" + ext)
            unsupported = raised in ("NotImplementedError",) or (raised == "ValueError" and not os.path.exists(path))
            if not force and not unsupported:
                if raised is None:
                    viol("%s|open|no-error" % ext, "md.open('%s', 'w', force_overwrite=False) on an existing path did not raise" % ext, desc)
                if not os.path.exists(path) or sha(path) != before:
                    viol("%s|open|clobbered" % ext, "md.open('%s', 'w', force_overwrite=False) changed the existing file (%s)" % (ext, raised), desc)
            # DCDTrajectoryFile opens the file at the first write(): an open-and-close without frames keeps the old file whole
            if force and raised is None and ext != ".dcd" and os.path.exists(path) and not os.path.isdir(path):
                data = open(path, "rb").read()
                if b"old content" in data:
                    viol("%s|open|force-retained" % ext, "md.open('%s', 'w', force_overwrite=True): old bytes are still in the file" % ext, desc)

    # the decision model
    if ctx.driver_ok and reqs:
        outs = ctx.driver.query([r[0] for r in reqs])
        for (rq, raised, ext, desc), o in zip(reqs, outs):
            if ("raised=true" in o) != raised:
                ctx.broke("correspondence:save-decision", "%s force=%s: impl %s, model %s" % (ext, desc["force"], "raised" if raised else "wrote", o))

    # readers never modify a file
    paths = {}
    for ext in savers:
        if ext in SKIP or ext in RESTART:
            continue
        p = os.path.join(ctx.scratch, "ro" + ext)
        clean(p)
        t_small.save(p)
        paths[ext] = p
    for ext, p in paths.items():
        before = sha(p)
        kw = {"top": top} if NEEDS_TOP(ext) else {}
        acts = [("load", lambda: md.load(p, **kw)), ("load stride", lambda: md.load(p, stride=2, **kw)),
                ("load_frame", lambda: md.load_frame(p, 1, **kw)), ("iterload", lambda: list(md.iterload(p, chunk=2, **kw)))]

        def fo():
            okw = {"n_atoms": 12} if ext in (".mdcrd", ".crd") else {}
            with md.open(p, **okw) as f:
                try:
                    f.read(1); f.tell(); f.seek(0); f.read(); len(f)
                except (NotImplementedError, AttributeError, TypeError):
                    pass
        acts.append(("md.open('r') read/tell/seek/len", fo))
        for name, fn in acts:
            try:
                fn()
            except Exception:  # noqa: BLE001
                pass
            ctx.case(dict(ext=ext, reader=name), (ext, name))
            ctx.count("readers")
            if sha(p) != before:
                viol("%s|read-modifies" % ext, "%s on a '%s' file changed its bytes" % (name, ext), dict(ext=ext, reader=name))
                before = sha(p)
    # ---- md.open with a path-like (the documented argument type) obeys force_overwrite for every format; a refused open writes nothing,
    # not even to the standard output
    import contextlib, io, pathlib, gc
    tq = md.load(top)
    for ext_ in ("xtc", "trr", "dcd", "h5", "nc", "pdb", "xyz", "gro", "mdcrd", "lammpstrj"):
        pq = pathlib.Path(ctx.scratch) / ("PathLike." + ext_)
        pq.write_bytes(b"precious " * 30)
        before = pq.read_bytes()
        ctx.case(None, ("path-like", ext_)); ctx.count("md.open with a pathlib.Path")
        buf = io.StringIO()
        raised = False
        with contextlib.redirect_stdout(buf):
            try:
                fq = md.open(pq, "w", force_overwrite=False)
                fq.close()
            except OSError:
                raised = True
            except Exception as e:  # noqa: BLE001
                viol("path-like|raises|" + ext_, "md.open(pathlib.Path('x.%s'), 'w', force_overwrite=False) raised %s: %s" % (ext_, type(e).__name__, str(e)[:80]), dict(ext=ext_))
                continue
            gc.collect()
        if not raised or pq.read_bytes() != before:
            viol("path-like|overwritten|" + ext_, "md.open(pathlib.Path('x.%s'), 'w', force_overwrite=False) on an existing file %s and the file is %s" % (
                ext_, "raised" if raised else "did not raise", "unchanged" if pq.read_bytes() == before else "modified"), dict(ext=ext_))
        if buf.getvalue():
            viol("refused-open|prints|" + ext_, "a refused md.open('.%s', 'w', force_overwrite=False) printed %r to the standard output" % (ext_, buf.getvalue()[:40]), dict(ext=ext_))
        try:
            fq = md.open(pq, "w", force_overwrite=True)
            fq.close()
        except Exception as e:  # noqa: BLE001
            viol("path-like|raises|" + ext_, "md.open(pathlib.Path('x.%s'), 'w', force_overwrite=True) raised %s: %s" % (ext_, type(e).__name__, str(e)[:80]), dict(ext=ext_))
    if ctx.driver_ok and fsreqs:
        fm = ctx.driver.query([r[0] for r in fsreqs])
        for (rq, raised_, snap0, snap1, ids0, desc_), m in zip(fsreqs, fm):
            ctx.count("directory listings compared with the model")
            err_, _, ent_ = m.partition(" ")
            want = {}
            for kv in (ent_.split(",") if ent_ else []):
                nm, _, idv = kv.partition("=")
                want[nm] = idv
            got = {}
            for nm, h_ in snap1.items():
                got[nm] = ids0[nm] if (nm in snap0 and snap0[nm] == h_) else "N"
            wantc = {nm: (v if not v.startswith("N") else "N") for nm, v in want.items()}
            # a file written with the bytes it already had counts as unchanged on disk
            same_ = {nm for nm in wantc if wantc[nm] == "N" and got.get(nm) == ids0.get(nm) and nm in snap0}
            for nm in same_:
                wantc[nm] = ids0[nm]
            if (err_ == "err=1") != raised_ or got != wantc:
                diff_ = sorted(set(got.items()) ^ set(wantc.items()))
                ctx.broke("correspondence:directory", "%s: after Trajectory.save the directory differs from the model in %s (refused: impl %s, model %s)" % (desc_, diff_[:4], raised_, err_))
    # ---- a save that cannot succeed (an option the format does not know, a cell the format cannot hold, per-atom data of the wrong length),
    # asked not to overwrite: whatever it raises, the file that is there stays as it is
    fsave_jobs = []
    t_tri = md.Trajectory(t_small.xyz.copy(), t_small.topology, unitcell_lengths=[[3.0, 3.1, 3.2]] * t_small.n_frames, unitcell_angles=[[80.0, 85.0, 100.0]] * t_small.n_frames)
    for ext_ in savers:
        ext_ = ext_.lstrip(".")
        if "." + ext_ in SKIP or ext_ == "dtr":
            continue
        for label_, traj_, kw_ in (("an option the format does not know", t_small, dict(no_such_option=3)), ("precision=", t_small, dict(precision=4)),
                                   ("a skewed cell", t_tri, {}), ("bfactors of the wrong length", t_small, dict(bfactors=np.zeros(5)))):
            pq = os.path.join(ctx.scratch, "Keep_%s.%s" % (label_[:4].strip("= "), ext_))
            with open(pq, "wb") as fh_:
                fh_.write(b"precious " * 40)
            before_ = sha(pq)
            ctx.case(None, ("failing-save", ext_, label_)); ctx.count("saves that cannot succeed onto an existing file, force_overwrite=False")
            with contextlib.redirect_stdout(io.StringIO()):
                try:
                    traj_.save(pq, force_overwrite=False, **kw_)
                    err_ = None
                except Exception as e:
                    err_ = type(e).__name__
            # the directory model (FileSys.save: an input the saver rejects touches nothing; a valid one is the open-for-write step)
            if "." + ext_ not in RESTART:   # (multi-frame restart saves write name.1 … name.n: modelled by saveMany above)
                fsave_jobs.append((os.path.basename(pq).replace(" ", "_"), 0 if err_ else 1, "old" if os.path.exists(pq) and sha(pq) == before_ else ("new" if os.path.exists(pq) else None), err_ is not None, ext_, label_))
            if not os.path.exists(pq) or sha(pq) != before_:
                viol("failing-save|existing-file-" + ("removed" if not os.path.exists(pq) else "changed"), "Trajectory.save('x.%s', force_overwrite=False) with %s %s; the file that existed at that path %s" % (
                    ext_, label_, "raised " + err_ if err_ else "returned", "was removed" if not os.path.exists(pq) else "was changed"), dict(ext=ext_, input=label_))
            clean(pq)
    if ctx.driver_ok and fsave_jobs:
        outm = ctx.driver.query(["fsave %s=old %d 0 %s=new" % (nm_, valid_, nm_) for nm_, valid_, _, _, _, _ in fsave_jobs])
        for (nm_, valid_, state_, raised_, ext_, label_), line in zip(fsave_jobs, outm):
            want_ = "err=%d %s" % (1 if raised_ else 0, "" if state_ is None else "%s=%s" % (nm_, state_))
            if line is None or line.strip() != want_.strip():
                ctx.broke("correspondence:failing-save", "save of %s onto an existing x.%s, force_overwrite=False: the directory model gives '%s', the implementation '%s'" % (label_, ext_, line, want_))
                break
    # ---- a .dtr writer opened under a name that is converted on the way (a Path; an inline str): the directory is only created at the first
    # write, from the name the writer kept — it must be the one that was opened, and another trajectory of the directory must stay as it is.
    # In a child process, working in its own scratch directory: the unrepaired writer clears and writes whatever path it finds in freed memory.
    import subprocess, sys, textwrap, tempfile, shutil, json
    work = tempfile.mkdtemp(prefix="dtrname", dir=ctx.scratch)
    code = textwrap.dedent("""
        import sys, os, json, pathlib
        sys.path.insert(0, %r)
        import mdv_boot  # noqa: F401
        import numpy as np, mdtraj as md
        tmp = pathlib.Path(%r); os.chdir(tmp)
        xyz = np.random.RandomState(0).rand(1, 5, 3).astype(np.float32)
        kw = dict(cell_lengths=np.ones((1, 3)) * 30, cell_angles=np.ones((1, 3)) * 90.0)
        out = {}
        for how in ("path", "inline-str", "save-path"):
            old = str(tmp / ("old_%%s.dtr" %% how[:4]))
            with md.open(old, "w") as f:
                f.write(xyz, times=np.array([5.0]), **kw)
            new = tmp / ("new_%%s.dtr" %% how[:4])
            if how == "save-path":
                t = md.Trajectory(xyz / 10, None, time=[77.0], unitcell_lengths=[[3, 3, 3]], unitcell_angles=[[90, 90, 90]])
                t.save_dtr(new, force_overwrite=False)
            else:
                f = md.open(new, "w", force_overwrite=False) if how == "path" else md.open(str(tmp / ("new_%%s.dtr" %% how[:4])), "w", force_overwrite=False)
                other = str(tmp / ("old_%%s.dtr" %% how[:4]))
                f.write(xyz + 1, times=np.array([77.0]), **kw); f.close()
            out[how] = [new.exists(), [float(x) for x in md.open(old).get_times()] if os.path.isdir(old) else None]
            print("RESULT " + json.dumps(out)); sys.stdout.flush()
    """) % (os.path.dirname(os.path.dirname(os.path.abspath(__file__))), work)
    ctx.case(None, ("dtr-name",)); ctx.count(".dtr writers opened under a converted name (child process)", 3)
    try:
        pr = subprocess.run([sys.executable, "-c", code], capture_output=True, text=True, timeout=300, cwd=work)
        lines = [l for l in pr.stdout.splitlines() if l.startswith("RESULT ")]
        got = json.loads(lines[-1][7:]) if lines else {}
        for how in ("path", "inline-str", "save-path"):
            r_ = got.get(how)
            if r_ is None:
                viol("dtr|converted-name|fails", "a .dtr writer opened with force_overwrite=False under a new name given as %s: the first write fails (%s)" % (how, (pr.stderr.strip().splitlines() or ["no output"])[-1][:120]), dict(how=how))
                break
            if not r_[0] or r_[1] != [5.0]:
                viol("dtr|converted-name|other-directory", "a .dtr writer opened with force_overwrite=False under a new name given as %s: after write and close the new directory %s and the existing trajectory next to it %s" % (
                    how, "exists" if r_[0] else "does not exist", "is unchanged" if r_[1] == [5.0] else "was replaced (its frame times are now %s)" % r_[1]), dict(how=how))
    except subprocess.TimeoutExpired:
        ctx.broke("harness:dtr-name-child", "the child process did not finish in 300 s")
    shutil.rmtree(work, ignore_errors=True)
    for key, (what, rp) in seen.items():
        ctx.violation(key, what, rp)


def replay(ctx, path):
    import json
    print(json.load(open(path))["what"])
    return 1
