"""C02: partial loading equals slicing the fully loaded trajectory.
Correspondence: md.load / load_frame / iterload / load(list) on real tagged files vs Model/Cursor.lean
(driver `load`, `loadframe`, `iter`).  Oracle: python slicing of the known frame list + field comparison
against the full load.  Every call on the real code runs in a forked child (a crash or hang is a result)."""
import os
import warnings

import numpy as np

from common import time_limit, Timeout, isolated
import trajfiles as tf

EXTS = ["h5", "xtc", "trr", "dcd", "nc", "mdcrd", "xyz", "xyz.gz", "lammpstrj", "dtr", "gro", "pdb", "pdb.gz"]
MODEL = dict(tf.MODEL_FMT, **{"gro": "h5", "pdb": "h5", "pdb.gz": "h5"})
TOPEXT = {"h5", "gro", "pdb", "pdb.gz"}
PYX = ["mdtraj.formats.xtc", "mdtraj.formats.trr", "mdtraj.formats.dcd", "mdtraj.formats.dtr"]


def ids_of_traj(t, ai, full=None):
    """which frames of the file `t` holds: from the tag carried by atom 0, or (atom 0 not selected) by looking the first selected atom's
    coordinates up in the full load"""
    if ai is None or 0 in ai:
        x = t.xyz if ai is None or ai[0] == 0 else t.xyz[:, [list(ai).index(0)]]
        return tf.frame_ids(x, 1.0)
    if full is None:
        return None
    ref = full.xyz[:, ai[0], :]
    out = []
    for row in t.xyz[:, 0, :]:
        hit = np.nonzero((ref == row).all(axis=1))[0]
        out.append(int(hit[0]) if len(hit) == 1 else -1)
    return out


def fmt_ids(ids):
    return ",".join(map(str, ids))


class Env:
    def __init__(self, ctx, n, cell=True):
        import mdtraj as md
        self.md = md
        self.n = n
        self.cell = cell
        self.exts = [e for e in EXTS if cell or e not in ("lammpstrj", "dtr")]   # these writers refuse a cell-less trajectory
        self.t, self.top, self.paths = tf.write_files(ctx.scratch, n, self.exts, cell=cell)
        self.full = {}

    def kw(self, ext):
        return {} if ext in TOPEXT else {"top": self.top}

    def full_load(self, ext):
        if ext not in self.full:
            self.full[ext] = self.md.load(self.paths[ext], **self.kw(ext))
        return self.full[ext]


def fields_match(part, full, ids, ai):
    """coordinates / time / cell of `part` are rows `ids` (and atoms `ai`) of the full load; topology is the subset"""
    if len(ids) != part.n_frames:
        return "n_frames %d for %d ids" % (part.n_frames, len(ids))
    if any(i < 0 or i >= full.n_frames for i in ids):
        return "unidentifiable frame"
    ref = full.xyz[ids] if ai is None else full.xyz[ids][:, ai]
    if part.xyz.shape != ref.shape or not np.array_equal(part.xyz, ref):
        return "coordinates differ from full[ids][:, atom_indices]"
    if not np.allclose(part.time, full.time[ids], rtol=1e-6, atol=1e-6):
        return "time differs from full.time[ids]: %s vs %s" % (part.time[:4], full.time[ids][:4])
    if (part.unitcell_lengths is None) != (full.unitcell_lengths is None):
        return "cell presence differs"
    # cells are recomputed from box vectors with vectorised trig: the last ulp may differ between batch sizes
    if full.unitcell_lengths is not None and not (
            np.allclose(part.unitcell_lengths, full.unitcell_lengths[ids], rtol=1e-6, atol=1e-6)
            and np.allclose(part.unitcell_angles, full.unitcell_angles[ids], rtol=1e-6, atol=1e-5)):
        return "unit cell differs from full cell[ids]"
    want_top = full.topology if ai is None else full.topology.subset(ai)
    if part.topology != want_top or part.n_atoms != want_top.n_atoms:
        return "topology is not the subset topology"
    return None


def do_job(env, kind, ext, n, p, m):
    """one call on the real code -> dict(viols=[(key, what)], broke=[(name, detail)], nontriv=key|None).
    `m` is the Lean model's answer for this call (or None)."""
    md = env.md
    out = dict(viols=[], broke=[], nontriv=None)
    path, kw = env.paths[ext], env.kw(ext)
    full = env.full_load(ext)
    allids = list(range(n))
    try:
        with time_limit(30):
            if kind == "load":
                s, ai = p["stride"], p["ai"]
                t = md.load(path, stride=s, atom_indices=ai, **kw)
                want = allids[::s]
                ids = ids_of_traj(t, ai, full)
                if ids is None:
                    ids = want if t.n_frames == len(want) else [-1] * t.n_frames
                err = None if ids == want else "frames %s, expected %s" % (ids, want)
                err = err or fields_match(t, full, want, ai)
                if err:
                    out["viols"].append(("%s|load|stride=%s|%s" % (ext, "1" if s == 1 else ">1", "atoms" if ai else "all"),
                                         "md.load(%s, stride=%d, atom_indices=%s): %s" % (ext, s, ai, err)))
                if m is not None and ai is None and m != fmt_ids(ids):
                    out["broke"].append(("correspondence:load", "%s n=%d stride=%d: impl %s model %s" % (ext, n, s, ids, m)))
                out["nontriv"] = (ext, n, s, tuple(ai or ())) if (s > 1 or ai) else None
            elif kind == "frame":
                i, ai = p["i"], p["ai"]
                t = md.load_frame(path, i, atom_indices=ai, **kw)
                ids = ids_of_traj(t, ai, full)
                err = None if ids == [i] else "frames %s, expected [%d]" % (ids, i)
                err = err or fields_match(t, full, [i], ai)
                if err:
                    out["viols"].append(("%s|load_frame|%s" % (ext, "atoms" if ai else "all"),
                                         "md.load_frame(%s, %d, atom_indices=%s): %s" % (ext, i, ai, err)))
                if m is not None and m != fmt_ids(ids):
                    out["broke"].append(("correspondence:load_frame", "%s n=%d i=%d: impl %s model %s" % (ext, n, i, ids, m)))
                out["nontriv"] = (ext, n, "f", i) if i > 0 else None
            elif kind == "iter":
                c, s, k, ai = p["chunk"], p["stride"], p["skip"], p["ai"]
                want = allids[k::s]
                chunks, nonterm, exc = [], False, None
                try:
                    for ch in md.iterload(path, chunk=c, stride=s, skip=k, atom_indices=ai, **kw):
                        chunks.append(ch)
                        if len(chunks) > n + 5:
                            nonterm = True
                            break
                except Timeout:
                    raise
                except Exception as e:  # noqa: BLE001
                    exc = type(e).__name__ + ": " + str(e)[:80]
                cls = "skip=%s|stride=%s|chunk=%s|" % ("0" if k == 0 else ("len" if k == n else ">0"), "1" if s == 1 else ">1", "0" if c == 0 else ">0")
                call = "md.iterload(%s, chunk=%d, stride=%d, skip=%d, atom_indices=%s)" % (ext, c, s, k, ai)
                if nonterm:
                    out["viols"].append(("%s|iterload|nonterminating|%s" % (ext, cls),
                                         "%s does not terminate (more than %d chunks from %d frames)" % (call, n + 5, n)))
                    got = "NONTERM"
                elif exc:
                    out["viols"].append(("%s|iterload|raises|%s" % (ext, cls), "%s raises %s" % (call, exc)))
                    got = "EXC"
                else:
                    idl = [ids_of_traj(ch, ai, full) for ch in chunks]
                    flat = [x for l in idl for x in l]
                    err = None
                    if flat != want:
                        err = "concatenated frames %s, expected file[%d::%d] = %s" % (flat, k, s, want)
                    elif c > 0 and (any(len(l) != c for l in idl[:-1]) or (idl and not (1 <= len(idl[-1]) <= c))):
                        err = "chunk sizes %s for chunk=%d" % ([len(l) for l in idl], c)
                    elif c == 0 and len(idl) != 1:
                        err = "chunk=0 yielded %d chunks" % len(idl)
                    if not err:
                        for ch, l in zip(chunks, idl):
                            err = err or fields_match(ch, full, l, ai)
                    if err:
                        out["viols"].append(("%s|iterload|wrong|%s" % (ext, cls), "%s: %s" % (call, err)))
                    got = "C" + ";".join(fmt_ids(l) for l in idl)
                if m is not None and m != got and not (got == "EXC" and m == "NONTERM"):
                    out["broke"].append(("correspondence:iterload", "%s n=%d chunk=%d stride=%d skip=%d: impl %s model %s" % (ext, n, c, s, k, got, m)))
                out["nontriv"] = (ext, n, c, s, k, tuple(ai or ())) if (s > 1 or k > 0 or (c and n % c)) else None
            elif kind == "list":
                kf, s = p["k"], p["stride"]
                t = md.load([path] * kf, stride=s, **kw)
                want = allids[::s] * kf
                ids = ids_of_traj(t, None)
                err = None if ids == want else "frames %s, expected %s" % (ids, want)
                if not err:
                    one = md.load(path, stride=s, **kw)
                    j1 = md.join([one] * kf) if kf > 1 else one
                    if not (np.array_equal(t.xyz, j1.xyz) and np.array_equal(t.time, j1.time)
                            and (t.unitcell_lengths is None) == (j1.unitcell_lengths is None)
                            and (t.unitcell_lengths is None or np.array_equal(t.unitcell_lengths, j1.unitcell_lengths))):
                        err = "load(list) differs from join of the individual loads"
                if err:
                    out["viols"].append(("%s|load-list" % ext, "md.load([%s]*%d, stride=%d): %s" % (ext, kf, s, err)))
                # the caller's topology object must come back unchanged from a list load with atom_indices
                topo = kw.get("top")
                if isinstance(topo, str):
                    topo = md.load(topo).topology          # hand a Topology object in, as callers do
                if topo is not None and hasattr(topo, "subset") and topo.n_atoms >= 4:
                    md.load([path] * max(kf, 2), top=topo, atom_indices=[0, 1, 2])
                    if "subset" in getattr(topo, "__dict__", {}) or topo.subset([0, 1, 2, 3]).n_atoms != 4:
                        out["viols"].append(("%s|load-list|topology-patched" % ext, "after md.load([%s]*2, top=top, atom_indices=[0, 1, 2]) the caller's topology has a patched subset(): top.subset([0, 1, 2, 3]) has %d atoms" % (
                            ext, topo.subset([0, 1, 2, 3]).n_atoms)))
                out["nontriv"] = (ext, n, "list", kf, s) if kf > 1 else None
    except Timeout:
        out["viols"].append(("%s|%s|hang|" % (ext, kind), "%s on %s did not return within 30 s: %s" % (kind, ext, p)))
    except Exception as e:  # noqa: BLE001
        out["viols"].append(("%s|%s|raises|" % (ext, kind), "%s on %s raised %s: %s (%s)" % (kind, ext, type(e).__name__, str(e)[:100], p)))
    return out


class NonTerminating(Exception):
    pass


def bounded(it, limit=40):
    """the chunks of an iterload, at most `limit` of them (one known defect never stops)"""
    out = []
    for ch in it:
        out.append(ch)
        if len(out) > limit:
            raise NonTerminating()
    return out


def atom_subset(rng, n_atoms=12):
    """atom_indices from the shapes a reader might special-case: a block, every k-th atom, a subset that only LOOKS regular (first gap and
    span of an arithmetic progression, uneven inside), one atom, all atoms, a random increasing subset"""
    kind = rng.choice(["block", "ap", "fake-ap", "fake-ap", "one", "all", "random", "random"])
    if kind == "block":
        a = rng.randrange(0, n_atoms - 2); b = rng.randrange(a + 1, n_atoms)
        return list(range(a, b + 1))
    if kind == "ap":
        g = rng.choice([2, 3, 4]); a = rng.randrange(0, 3)
        return list(range(a, n_atoms, g))
    if kind == "fake-ap":
        g = rng.choice([2, 2, 3]); m = rng.choice([4, 5]) if g == 2 else 4
        a = rng.randrange(0, n_atoms - g * (m - 1))
        ap = [a + g * i for i in range(m)]
        for _ in range(20):
            inner = sorted(rng.sample(range(ap[1] + 1, ap[-1]), m - 2))
            cand = [ap[0], ap[1]] + inner
            cand = sorted(set([ap[0], ap[1]] + inner[: m - 3] + [ap[-1]]))
            if len(cand) == m and cand != ap:
                return cand
        return ap
    if kind == "one":
        return [rng.randrange(n_atoms)]
    if kind == "all":
        return list(range(n_atoms))
    return sorted(rng.sample(range(n_atoms), rng.randrange(2, 7)))


def run(ctx):
    warnings.filterwarnings("ignore")
    ctx.rule = ("md.load(stride, atom_indices) / load_frame / iterload(chunk, stride, skip, atom_indices) / load(list) on tagged "
                "files of every readable format; thorough tier is exhaustive over chunk x stride x skip for 7- and 10-frame files; "
                "non-trivial = distinct (format, call) with stride>1 or skip>0 or chunk not dividing the frame count or atom subset")
    ctx.assumptions.append("dtr, gro and pdb are outside the reader models for load_frame/iterload (their read_as_traj ignores n_frames or they have no file-object cursor); they are checked by the oracle only and their defects are listed as known findings")
    for m in PYX:
        ctx.drift_for(m)
    rng = ctx.rng
    sizes = [(7, True), (6, False)] if ctx.quick else [(7, True), (10, True), (6, False), (1, True)]
    envs = {n: Env(ctx, n, cell) for n, cell in sizes}
    jobs = []   # (kind, ext, n, params)
    for n, cell in sizes:
        for ext in envs[n].exts:
            strides = [1, 2, 3, 5] if ctx.quick else [1, 2, 3, 4, 5, 8]
            for s in strides:
                jobs.append(("load", ext, n, dict(stride=s, ai=None)))
            jobs.append(("load", ext, n, dict(stride=rng.choice([1, 2, 3]), ai=[0] + sorted(rng.sample(range(1, 12), 4)))))
            jobs.append(("load", ext, n, dict(stride=1, ai=sorted(rng.sample(range(1, 12), 3)))))
            for _ in range(ctx.n(3, 10)):
                jobs.append(("load", ext, n, dict(stride=rng.choice([1, 1, 2]), ai=atom_subset(rng))))
            for i in (sorted({0, n - 1, rng.randrange(n)}) if ctx.quick else range(n)):
                jobs.append(("frame", ext, n, dict(i=i, ai=None if rng.random() < 0.6 else (atom_subset(rng) if rng.random() < 0.7 else [0, 2, 5]))))
            combos = [(c, s, k) for c in range(0, n + 3) for s in (1, 2, 3, 4) for k in range(0, n + 1)]
            if ctx.quick:
                fixed = [(4, 3, 0), (100, 3, 1), (0, 2, 1), (1, 1, 0), (2, 2, 3), (3, 1, n), (n + 2, 2, 0), (5, 4, 2)]
                combos = fixed + rng.sample(combos, 22)
            for (c, s, k) in combos:
                ai = None if rng.random() < 0.75 else (atom_subset(rng) if rng.random() < 0.6 else [0] + sorted(rng.sample(range(1, 12), 3)))
                jobs.append(("iter", ext, n, dict(chunk=c, stride=s, skip=k, ai=ai)))
            for _ in range(ctx.n(2, 8)):
                jobs.append(("list", ext, n, dict(k=rng.randrange(1, 4), stride=rng.choice([1, 2, 3]))))
    if not ctx.quick:
        ctx.notes.append("iterload: exhaustive over chunk 0..n+2 x stride 1..4 x skip 0..n for n in {7,10}, every format")

    unmodelled = {"dtr": ("frame", "iter"), "gro": ("frame", "iter"), "pdb": ("frame",), "pdb.gz": ("frame",)}
    reqs, idx = [], []
    for j, (kind, ext, n, p) in enumerate(jobs):
        mf = MODEL[ext]
        if kind in unmodelled.get(ext, ()):
            continue
        if kind == "load":
            reqs.append("load %s %d %d" % (mf, n, p["stride"])); idx.append(j)
        elif kind == "frame":
            reqs.append("loadframe %s %d %d" % (mf, n, p["i"])); idx.append(j)
        elif kind == "iter":
            reqs.append("iter %s %d %d %d %d %d" % (mf, n, p["chunk"], p["stride"], p["skip"], n + 6)); idx.append(j)
    model = {}
    if ctx.driver_ok:
        for j, line in zip(idx, ctx.driver.query(reqs)):
            model[j] = line
    for e in envs.values():
        for ext in e.exts:
            e.full_load(ext)

    seen = {}
    for j, (kind, ext, n, p) in enumerate(jobs):
        desc = dict(kind=kind, ext=ext, n_frames=n, cell=envs[n].cell, **p)
        st, res = isolated(do_job, envs[n], kind, ext, n, p, model.get(j), timeout=90)
        if st != "ok":
            key = "%s|%s|%s|" % (ext, "iterload" if kind == "iter" else kind, st)
            seen.setdefault(key, ("%s on %s %s: %s (%s)" % (kind, ext, p, "the interpreter died" if st == "crash" else st, res), desc))
            res = dict(viols=[], broke=[], nontriv=None)
        # trr.pyx: the skip buffer `xyz_stride` holds n_atoms_to_read atoms but read_trr writes n_atoms into it: with
        # stride > 1 and atom_indices the heap is overrun; the manifestation (crash, wrong frames, nothing) is not deterministic
        overflow = ext == "trr" and p.get("stride", 1) > 1 and p.get("ai")
        if overflow and st != "ok":
            seen.pop("%s|%s|%s|" % (ext, "iterload" if kind == "iter" else kind, st), None)
            seen.setdefault("trr|stride+atom_indices|heap-overflow", ("%s on trr %s: %s" % (kind, p, st), desc))
        for key, what in res["viols"]:
            if overflow:
                key = "trr|stride+atom_indices|heap-overflow"
            seen.setdefault(key, (what, desc))
        for name, detail in res["broke"]:
            if overflow:
                continue    # what an overrun heap returns is not a statement about the model (the finding is recorded above)
            ctx.broke(name, detail)
        ctx.case(desc, res["nontriv"])
        ctx.count("calls:" + kind)
        ctx.count("ext:" + ext)
    # atom_indices must commute with every load decision, including the PDB reader's decision to discard a dummy CRYST1 record
    try:
        import mdtraj as md
        env0 = next(iter(envs.values()))
        base = md.load(env0.paths["pdb"]) if "pdb" in env0.paths else None
        if base is not None and base.n_atoms >= 6:
            tiny = md.Trajectory(base.xyz[:1].copy(), base.topology, unitcell_lengths=np.full((1, 3), 0.2), unitcell_angles=np.full((1, 3), 90.0))
            pth = os.path.join(ctx.scratch, "dummy_cell.pdb")
            tiny.save(pth)
            full = md.load(pth)
            for ai in ([0], [0, 1, 2], list(range(base.n_atoms))):
                part = md.load(pth, atom_indices=ai)
                ctx.case(None, ("pdb-dummy-cell", tuple(ai))); ctx.count("calls:pdb-dummy-cell")
                if (full.unitcell_lengths is None) != (part.unitcell_lengths is None):
                    seen.setdefault("pdb|atom_indices|dummy-cell", ("md.load(pdb with a 0.2 nm CRYST1 cell): the unit cell is %s for the whole file but %s with atom_indices=%s" % (
                        "discarded" if full.unitcell_lengths is None else "kept", "discarded" if part.unitcell_lengths is None else "kept", ai), dict(atom_indices=ai)))
    except Exception as e:  # noqa: BLE001
        ctx.broke("harness:pdb-dummy-cell", "%s: %s" % (type(e).__name__, e))
    # files that hold no time stamps (written through the file objects without a time argument): the frames are then numbered by their
    # position in the file, in a full load and in every partial load alike
    try:
        import mdtraj as md
        from mdtraj.formats import HDF5TrajectoryFile, NetCDFTrajectoryFile
        env0 = next(iter(envs.values()))
        src = env0.t
        for ext in ("h5", "nc"):
            pth = os.path.join(ctx.scratch, "notime." + ext)
            if ext == "h5":
                with HDF5TrajectoryFile(pth, "w") as fh:
                    fh.write(src.xyz); fh.topology = src.topology
                kw = {}
            else:
                with NetCDFTrajectoryFile(pth, "w") as fh:
                    fh.write(src.xyz * 10)
                kw = dict(top=env0.top)
            full = md.load(pth, **kw)
            nfl = full.n_frames
            calls = [("load(stride=%d)" % s_, lambda s_=s_: md.load(pth, stride=s_, **kw), list(range(0, nfl, s_))) for s_ in (2, 3)]
            calls += [("load_frame(%d)" % i_, lambda i_=i_: md.load_frame(pth, i_, **kw), [i_]) for i_ in (0, nfl // 2, nfl - 1)]
            for c_, s_, k_ in ((3, 1, 0), (2, 2, 1), (4, 3, 0)):
                calls.append(("iterload(chunk=%d, stride=%d, skip=%d)" % (c_, s_, k_), lambda c_=c_, s_=s_, k_=k_: md.join(list(md.iterload(pth, chunk=c_, stride=s_, skip=k_, **kw))), list(range(k_, nfl, s_))))
            for name, fn, ids in calls:
                part = fn()
                ctx.case(None, ("notime", ext, name)); ctx.count("calls:files-without-time-stamps")
                err = fields_match(part, full, ids, None)
                if err:
                    seen.setdefault("%s|no-time-stamps|partial-load" % ext, ("md.%s on a .%s file without time stamps: %s" % (name, ext, err), dict(call=name, ext=ext)))
    except Exception as e:  # noqa: BLE001
        ctx.broke("harness:notime", "%s: %s" % (type(e).__name__, e))
    # legacy .lh5 files cannot be written in this environment (PyTables rejects the topology string array), but they are readable: the one in
    # the repository's test data (501 frames, 22 atoms) is loaded partially and compared with slices of its full load
    try:
        import mdtraj as md
        lh5 = os.path.join(REPO_DIR(), "tests", "data", "frame0.lh5")
        if os.path.exists(lh5):
            full = md.load(lh5)
            nfl = full.n_frames
            for _ in range(ctx.n(10, 60)):
                c, s_, k = rng.choice([1, 4, 7, 50, 100, 600]), rng.choice([1, 2, 3, 5, 7]), rng.choice([0, 0, 1, 13, 400, nfl])
                ai = None if rng.random() < 0.6 else atom_subset(rng, 22)
                chunks = []
                for ch in md.iterload(lh5, chunk=c, stride=s_, skip=k, atom_indices=ai):
                    chunks.append(ch)
                    if len(chunks) > nfl + 5:
                        break
                ctx.case(None, ("lh5", c, s_, k, None if ai is None else tuple(ai))); ctx.count("calls:lh5-iterload")
                want = full[k::s_] if k < nfl else None
                got_n = sum(ch.n_frames for ch in chunks)
                cat = np.concatenate([ch.xyz for ch in chunks]) if chunks else np.zeros((0, 22 if ai is None else len(ai), 3))
                wx = np.zeros((0,) + cat.shape[1:]) if want is None else (want.xyz if ai is None else want.xyz[:, ai])
                bad = None
                if cat.shape != wx.shape or not np.array_equal(cat, wx):
                    bad = "%d frames in chunks of %s, file[%d::%d] has %d" % (got_n, [ch.n_frames for ch in chunks][:6], k, s_, len(wx))
                elif any(ch.n_frames != c for ch in chunks[:-1]):
                    bad = "chunk sizes %s for chunk=%d" % ([ch.n_frames for ch in chunks][:8], c)
                if bad:
                    seen.setdefault("lh5|iterload|%s" % ("stride>1" if s_ > 1 else "stride=1"), ("md.iterload(frame0.lh5, chunk=%d, stride=%d, skip=%d, atom_indices=%s): %s" % (c, s_, k, ai, bad),
                                                                                               dict(chunk=c, stride=s_, skip=k, atom_indices=ai)))
            for s_ in (1, 2, 5):
                part = md.load(lh5, stride=s_, atom_indices=[0, 3, 4, 9])
                ctx.case(None, ("lh5-load", s_)); ctx.count("calls:lh5-load")
                if not np.array_equal(part.xyz, full.xyz[::s_][:, [0, 3, 4, 9]]):
                    seen.setdefault("lh5|load", ("md.load(frame0.lh5, stride=%d, atom_indices=[0, 3, 4, 9]) differs from the slice of the full load" % s_, dict(stride=s_)))
    except Exception as e:  # noqa: BLE001
        ctx.broke("harness:lh5", "%s: %s" % (type(e).__name__, e))
    # ---- atom counts that change the layout of the text formats (ten values to an .mdcrd line: 3N a multiple of ten or not; one or two
    # atoms; more than nine atoms for .xtc): strided loads, single frames and chunked iteration against slices of the full load
    for na_ in ([10, 7] if ctx.quick else [1, 2, 3, 7, 9, 10, 20, 30]):
        for cell_ in (True, False):
            exts_ = [e for e in ("mdcrd", "xyz", "lammpstrj", "xtc", "dcd", "nc", "h5") if not (e == "lammpstrj" and not cell_) and not (e == "mdcrd" and na_ == 1)]
            tfull, top_, paths_ = tf.write_files(os.path.join(ctx.scratch, "na%d_%d" % (na_, cell_)), 9, exts_, n_atoms=na_, seed=5, cell=cell_)
            for e in exts_:
                kw = {} if e == "h5" else dict(top=top_)
                full = md.load(paths_[e], **kw)
                probes = [("load(stride=2)", lambda: md.load(paths_[e], stride=2, **kw), full[::2]),
                          ("load(stride=3)", lambda: md.load(paths_[e], stride=3, **kw), full[::3]),
                          ("load_frame(2)", lambda: md.load_frame(paths_[e], 2, **kw), full[2]),
                          ("load_frame(8)", lambda: md.load_frame(paths_[e], 8, **kw), full[8]),
                          ("iterload(chunk=2, stride=2, skip=3)", lambda: md.join(bounded(md.iterload(paths_[e], chunk=2, stride=2, skip=3, **kw))), full[3::2]),
                          ("iterload(chunk=4, skip=2)", lambda: md.join(bounded(md.iterload(paths_[e], chunk=4, skip=2, **kw))), full[2:])]
                for name_, fn_, want_ in probes:
                    ctx.case(None, ("atom-counts", na_, cell_, e, name_)); ctx.count("partial loads at other atom counts")
                    try:
                        got_ = fn_()
                        okk = got_.n_frames == want_.n_frames and np.array_equal(got_.xyz, want_.xyz) and np.array_equal(got_.time, want_.time) and \
                            ((got_.unitcell_lengths is None) == (want_.unitcell_lengths is None)) and (want_.unitcell_lengths is None or np.array_equal(got_.unitcell_lengths, want_.unitcell_lengths))
                        desc_ = "%d frames (ids %s), the slice of the full load has %d (ids %s)" % (got_.n_frames, tf.frame_ids(got_.xyz, 1.0), want_.n_frames, tf.frame_ids(want_.xyz, 1.0))
                    except NonTerminating:
                        # the recorded finding for .xtc (skip > 0 with stride > 1), under its own key
                        seen.setdefault("%s|iterload|nonterminating|skip=>0|stride=>1|chunk=>0|" % e, ("md.%s on a .%s file of %d atoms does not terminate" % (name_, e, na_), dict(ext=e, n_atoms=na_, call=name_)))
                        continue
                    except Exception as ex:  # noqa: BLE001
                        okk, desc_ = False, "raised %s: %s" % (type(ex).__name__, str(ex)[:100])
                    if not okk:
                        seen.setdefault("%s|atom-count|%s" % (e, name_.split("(")[0]), ("md.%s on a .%s file of %d atoms (%s cell): %s" % (name_, e, na_, "with" if cell_ else "without", desc_), dict(ext=e, n_atoms=na_, cell=cell_, call=name_)))
                        break
    # ---- files of tens of megabytes (3000 atoms x 600 frames; readers that work through a large file in blocks), the frame number written
    # into the coordinates: strided loads and chunked iteration against the frame numbers a slice of the whole file has
    n_big, f_big = 3000, (600 if ctx.quick else 1500)
    Xb = np.zeros((f_big, n_big, 3), dtype=np.float32)
    Xb[:, :, 0] = np.arange(f_big)[:, None]
    Xb[:, :, 1] = (np.arange(n_big) % 97)[None, :] * 0.01
    topb = md.Topology(); chb = topb.add_chain(); rb = topb.add_residue("LIG", chb)
    for _ in range(n_big):
        topb.add_atom("C", md.element.carbon, rb)
    tb = md.Trajectory(Xb, topb, time=np.arange(f_big, dtype=np.float32), unitcell_lengths=np.tile([[40.0, 40.0, 40.0]], (f_big, 1)) + np.arange(f_big)[:, None] * 0.001, unitcell_angles=np.tile([[90.0, 90.0, 90.0]], (f_big, 1)))
    for e in (("nc", "h5") if ctx.quick else ("nc", "h5", "dcd", "xtc", "trr")):
        pb = os.path.join(ctx.scratch, "big." + e)
        try:
            tb.save(pb)
            kw = {} if e == "h5" else dict(top=topb)
            for name_, fn_, want_ in (("load(stride=3)", lambda: md.load(pb, stride=3, **kw), np.arange(f_big)[::3]),
                                      ("load(stride=7, atom_indices=[0, 5, 2999])", lambda: md.load(pb, stride=7, atom_indices=[0, 5, 2999], **kw), np.arange(f_big)[::7]),
                                      ("iterload(chunk=250, stride=4, skip=3)", lambda: md.join(bounded(md.iterload(pb, chunk=250, stride=4, skip=3, **kw))), np.arange(f_big)[3::4]),
                                      ("iterload(chunk=500, stride=5)", lambda: md.join(bounded(md.iterload(pb, chunk=500, stride=5, **kw))), np.arange(f_big)[::5])):
                if e == "trr" and "atom_indices" in name_:
                    continue    # the recorded heap overflow of trr.pyx (stride > 1 with atom_indices): not provoked here
                ctx.case(None, ("big-file", e, name_)); ctx.count("partial loads of files of tens of megabytes")
                try:
                    got_ = fn_()
                except NonTerminating:
                    continue
                ids_ = np.rint(got_.xyz[:, 0, 0]).astype(int)
                tids_ = np.rint(got_.time).astype(int)
                cids_ = np.rint((got_.unitcell_lengths[:, 0] - 40.0) * 1000).astype(int)
                if not (np.array_equal(ids_, want_) and np.array_equal(tids_, want_) and np.array_equal(cids_, want_)):
                    w_ = [i for i in range(min(len(ids_), len(want_))) if ids_[i] != want_[i]]
                    seen.setdefault("%s|big-file|%s" % (e, name_.split("(")[0]), ("md.%s on a .%s file of %d atoms x %d frames gives %d frames%s; the slice of the whole file has %d" % (
                        name_, e, n_big, f_big, len(ids_), (", position %d holds frame %d instead of %d" % (w_[0], ids_[w_[0]], want_[w_[0]])) if w_ else "", len(want_)), dict(ext=e, call=name_, n_atoms=n_big, n_frames=f_big)))
                    break
        except Exception as ex:  # noqa: BLE001
            seen.setdefault("%s|big-file|raises" % e, ("partial loads of a .%s file of %d atoms x %d frames raised %s: %s" % (e, n_big, f_big, type(ex).__name__, str(ex)[:100]), dict(ext=e)))
        finally:
            if os.path.exists(pb):
                os.remove(pb)
    del Xb, tb
    for key, (what, rp) in seen.items():
        ctx.violation(key, what, rp)


def REPO_DIR():
    import mdv_boot
    return mdv_boot.REPO


def replay(ctx, path):
    import json
    warnings.filterwarnings("ignore")
    rp = json.load(open(path))["replay"]
    kind, ext, n = rp.pop("kind"), rp.pop("ext"), rp.pop("n_frames")
    env = Env(ctx, n, rp.pop("cell", True))
    st, res = isolated(do_job, env, kind, ext, n, rp, None, timeout=90)
    print(st, res)
    return 1 if (st != "ok" or res["viols"]) else 0
