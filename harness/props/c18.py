"""C18: an open trajectory file behaves as a cursor over its frames.
Correspondence: real file objects vs the per-format reader models of Model/Cursor.lean (driver `cursor`).
Oracle: the abstract cursor (python re-implementation, cross-checked with the driver's `spec`)."""
import itertools
import os

import numpy as np

from common import time_limit
import trajfiles as tf

EXTS = ["h5", "xtc", "trr", "dcd", "nc", "mdcrd", "xyz", "xyz.gz", "lammpstrj", "dtr", "arc"]
PYX = {"xtc": "mdtraj.formats.xtc", "trr": "mdtraj.formats.trr", "dcd": "mdtraj.formats.dcd", "dtr": "mdtraj.formats.dtr"}
ARC = os.path.join(tf.mdv_boot.REPO, "tests", "data", "nitrogen.arc")


def tok(op):
    k = op[0]
    return k if k in ("ra", "t", "l") else "%s%d" % (k, op[1])


def spec_run(n, ops):
    """the abstract cursor; returns (outputs, positions before each op, eof-hit flags)"""
    pos, outs, poss, eof = 0, [], [], []
    for op in ops:
        poss.append(pos)
        k = op[0]
        if k == "r":
            outs.append("F" + ",".join(map(str, range(pos, min(pos + op[1], n)))))
            eof.append(pos + op[1] > n)
            pos = min(pos + op[1], n)
        elif k == "ra":
            outs.append("F" + ",".join(map(str, range(pos, n))))
            eof.append(True)
            pos = n
        elif k == "s":
            outs.append("U"); eof.append(False); pos = op[1]
        elif k == "d":
            outs.append("U"); eof.append(False); pos = pos + op[1]
        elif k == "t":
            outs.append("N%d" % pos); eof.append(False)
        elif k == "l":
            outs.append("N%d" % n); eof.append(False)
    return outs, poss, eof


def in_range(n, ops):
    pos = 0
    for op in ops:
        k = op[0]
        if k == "r":
            if op[1] < 1:
                return False
            pos = min(pos + op[1], n)
        elif k == "ra":
            pos = n
        elif k == "s":
            if not (0 <= op[1] < n):
                return False
            pos = op[1]
        elif k == "d":
            if not (0 <= pos + op[1] < n):
                return False
            pos += op[1]
    return True


def gen_script(rng, n, length, has_len, reads_only=False):
    ops, pos = [], 0
    for _ in range(length):
        c = rng.random() * (0.46 if reads_only else 1.0)
        if c < 0.34:
            k = rng.choice([1, 1, 2, 3, n, n + 2, max(1, n - pos), max(1, n - pos + 1)])
            ops.append(("r", k)); pos = min(pos + k, n)
        elif c < 0.46:
            ops.append(("ra",)); pos = n
        elif c < 0.62:
            k = rng.randrange(n); ops.append(("s", k)); pos = k
        elif c < 0.76:
            tgt = rng.randrange(n); ops.append(("d", tgt - pos)); pos = tgt
        elif c < 0.90 or not has_len:
            ops.append(("t",))
        else:
            ops.append(("l",))
    return ops


class Files:
    def __init__(self, ctx):
        self.dir = ctx.scratch
        self.cache = {}

    def get(self, ext, n):
        key = (ext, n)
        cell = n != 6 or ext in ("lammpstrj", "dtr")   # the 6-frame files carry no unit cell (these two writers refuse that)
        if key not in self.cache:
            if ext == "arc":
                import mdtraj as md
                with md.open(ARC) as f:
                    ref = np.asarray(f.read()[0])
                self.cache[key] = (ARC, ref.shape[1], ref)
            else:
                t, top, paths = tf.write_files(self.dir, n, [ext], cell=cell)
                if ext == "dcd" and n in (8, 9):
                    # a DCD whose header frame count disagrees with the frames present (0 from a streaming writer for the 8-frame file, one
                    # short from a killed writer for the 9-frame file): the reader derives the count from the file size
                    import struct
                    buf = bytearray(open(paths[ext], "rb").read())
                    struct.pack_into("<i", buf, 8, 0 if n == 8 else n - 1)
                    pp = paths[ext].replace(".dcd", "_nset.dcd")
                    open(pp, "wb").write(bytes(buf))
                    paths[ext] = pp
                self.cache[key] = (paths[ext], t.n_atoms, None)
        return self.cache[key]


def ids_of(x, ext, ref):
    if ref is not None:  # untagged file (arc): identify frames by exact content against the full read
        x = np.asarray(x)
        if x.ndim != 3:
            return []
        out = []
        for fr in x:
            m = [i for i in range(len(ref)) if fr.shape == ref[i].shape and np.array_equal(fr, ref[i])]
            out.append(m[0] if m else -1)
        return out
    return tf.frame_ids(x, 1.0 if ext in ("h5", "xtc", "trr") else 10.0)


def narrow(v):
    """the integer as the narrowest numpy integer type that holds it (np.uint8(200), np.int8(-5)): an accepted argument type"""
    for ty in (np.uint8, np.int8, np.uint16, np.int16):
        if np.iinfo(ty).min <= v <= np.iinfo(ty).max:
            return ty(v)
    return np.int64(v)


def run_impl(path, ext, n_atoms, ref, ops, atom_idx=None, handles=None, numpy_ints=False):
    """ops: list of ops (single handle) or list of (handle, op) when handles=2.  -> list of output tokens"""
    if numpy_ints:
        ops = [(o[0], narrow(o[1])) if len(o) > 1 else o for o in ops]
    hs = [tf.open_file(path, ext, n_atoms) for _ in range(handles or 1)]
    outs, errs = [], []
    try:
        for item in ops:
            h, op = item if handles else (0, item)
            f = hs[h]
            try:
                with time_limit(20):
                    k = op[0]
                    if k in ("r", "ra"):
                        kw = {} if atom_idx is None else {"atom_indices": atom_idx}
                        r = f.read(**kw) if k == "ra" else f.read(op[1], **kw)
                        x = tf.coords_of(r)
                        ids = ids_of(x, ext, ref if atom_idx is None else None)
                        if atom_idx is not None and np.asarray(x).ndim == 3 and np.asarray(x).shape[1] != len(atom_idx):
                            ids = [-2] * len(ids)
                        o = "F" + ",".join(map(str, ids))
                    elif k == "s":
                        f.seek(op[1]); o = "U"
                    elif k == "d":
                        f.seek(op[1], 1); o = "U"
                    elif k == "t":
                        o = "N%d" % f.tell()
                    else:
                        o = "N%d" % len(f)
            except Exception as e:  # noqa: BLE001
                o = "E"
                errs.append("%s:%s" % (tok(op), type(e).__name__))
            outs.append((h, o) if handles else o)
    finally:
        for f in hs:
            try:
                f.close()
            except Exception:  # noqa: BLE001
                pass
    return outs, errs


def classify(ext, n, ops, impl):
    spec, poss, eof = spec_run(n, ops)
    for i, (a, b) in enumerate(zip(impl, spec)):
        if a != b:
            k = ops[i][0]
            prior = any(eof[:i])
            at_eof = poss[i] >= n
            if ext == "trr" and prior:
                return "trr-eof-read-counted", i
            if ext == "trr" and k == "ra" and at_eof:
                return "trr-readall-at-eof-raises", i
            return "%s|%s|%s|%s" % (ext, k, "at-eof" if at_eof else "mid", "after-eof-read" if prior else "fresh"), i
    return None, None


def shrink(n, ops, fails):
    ops = list(ops)
    changed = True
    while changed:
        changed = False
        for i in range(len(ops)):
            cand = ops[:i] + ops[i + 1:]
            if cand and in_range(n, cand) and fails(cand):
                ops = cand
                changed = True
                break
    return ops


def run(ctx):
    ctx.rule = ("operation scripts over {read(n>=1), read(), seek(k<len), seek(d,1) in range, tell, len} on real files of "
                "every seekable format (tagged frames), one and two handles, with/without atom_indices; random (seeded) "
                "plus exhaustive short scripts in the thorough tier; non-trivial = distinct (format, script) containing "
                "at least one read and one seek or tell")
    ctx.assumptions.append("arc offers no seek/tell/len (they raise NotImplementedError): only sequential reads are scripted; arc files cannot be written by mdtraj: frames of tests/data/nitrogen.arc are identified by exact content against its full read")
    for e, m in PYX.items():
        ctx.drift_for(m)
    files = Files(ctx)
    rng = ctx.rng
    sizes = [7, 6] if ctx.quick else [7, 6, 12, 1]
    n_random = ctx.n(40, 400)
    jobs = []   # (ext, n, ops, atom_idx, handles)
    corpus = [
        [("ra",), ("t",)], [("r", 3), ("ra",), ("ra",), ("t",)], [("s", 3), ("ra",), ("t",)], [("r", 4), ("ra",), ("t",)],
        [("r", 2), ("s", 0), ("r", 1)], [("r", 9), ("t",), ("d", -1), ("r", 1)], [("l",), ("ra",), ("l",), ("t",)],
        [("ra",), ("r", 1), ("t",)], [("s", 6), ("r", 1), ("t",), ("r", 1), ("t",)],
    ]
    for ext in EXTS:
        has_len = ext in tf.HAS_LEN
        for n in sizes + ([8, 9] if ext == "dcd" else []):
            if ext == "arc" and n != sizes[0]:
                continue
            nn = n
            if ext == "arc":
                nn = len(files.get("arc", 0)[2])
            ro = ext == "arc"   # arc offers no seek/tell/len (NotImplementedError): sequential reads only
            for ops in corpus:
                ops = [o for o in ops if (has_len or o[0] != "l") and (not ro or o[0] in ("r", "ra"))]
                if in_range(nn, ops):
                    jobs.append((ext, nn, ops, None, None))
            for _ in range(n_random):
                ops = gen_script(rng, nn, rng.randrange(2, 9), has_len, ro)
                ai = None
                if ext != "arc" and rng.random() < 0.25:
                    ai = [0] + sorted(rng.sample(range(1, 12), rng.randrange(0, 5)))
                jobs.append((ext, nn, ops, ai, None))
            for _ in range(ctx.n(10, 100)):
                a = gen_script(rng, nn, rng.randrange(2, 6), has_len, ro)
                b = gen_script(rng, nn, rng.randrange(2, 6), has_len, ro)
                inter = [(0, o) for o in a] + [(1, o) for o in b]
                # random interleaving that keeps each handle's order
                ia, ib, mix = 0, 0, []
                while ia < len(a) or ib < len(b):
                    if ib >= len(b) or (ia < len(a) and rng.random() < 0.5):
                        mix.append((0, a[ia])); ia += 1
                    else:
                        mix.append((1, b[ib])); ib += 1
                jobs.append((ext, nn, mix, None, 2))
        if not ctx.quick and ext != "arc":
            alpha = [("r", 1), ("r", 2), ("r", 6), ("ra",), ("s", 0), ("s", 3), ("d", -1), ("d", 1), ("t",)] + ([("l",)] if has_len else [])
            for L in (1, 2, 3, 4):
                for ops in itertools.product(alpha, repeat=L):
                    if in_range(5, ops):
                        jobs.append((ext, 5, list(ops), None, None))
            ctx.exhaustive = False
            ctx.notes.append("exhaustive: all in-range scripts of length <= 4 over a 9/10-letter alphabet on a 5-frame file, per format")

    # --- model predictions in one driver batch
    reqs, index = [], []
    for j, (ext, n, ops, ai, handles) in enumerate(jobs):
        mf = tf.MODEL_FMT[ext]
        if handles:
            for h in (0, 1):
                reqs.append("cursor %s %d %s" % (mf, n, ";".join(tok(o) for hh, o in ops if hh == h))); index.append((j, h))
        else:
            reqs.append("cursor %s %d %s" % (mf, n, ";".join(tok(o) for o in ops))); index.append((j, None))
            reqs.append("spec %d %s" % (n, ";".join(tok(o) for o in ops))); index.append((j, "spec"))
    model = {}
    if ctx.driver_ok:
        for (j, h), line in zip(index, ctx.driver.query(reqs)):
            model[(j, h)] = line.split("|") if line else []

    seen_keys = {}
    for j, (ext, n, ops, ai, handles) in enumerate(jobs):
        path, n_atoms, ref = files.get(ext, n if ext != "arc" else 0)
        impl, errs = run_impl(path, ext, n_atoms, ref, ops, ai, handles)
        if handles:
            ok = True
            for h in (0, 1):
                sub = [o for hh, o in ops if hh == h]
                got = [o for hh, o in impl if hh == h]
                spec, _, _ = spec_run(n, sub)
                if got != spec:
                    key, _ = classify(ext, n, sub, got)
                    # is it the handle's own (single-handle) behaviour, or interference?
                    alone, _ = run_impl(path, ext, n_atoms, ref, sub, ai, None)
                    if alone != got:
                        key = "%s|two-handles-interfere" % ext
                    seen_keys.setdefault(key, dict(ext=ext, n_frames=n, ops=[tok(o) for o in sub], got=got, expected=spec, two_handles=True))
                    ok = False
                if ctx.driver_ok and model.get((j, h)) is not None and got != model[(j, h)]:
                    ctx.broke("correspondence:cursor-two-handles", "impl %s on %s n=%d handle %d script %s: impl %s model %s" % (
                        ext, path, n, h, [tok(o) for o in sub], got, model[(j, h)]))
            ctx.case(dict(ext=ext, n=n, two_handles=[(h, tok(o)) for h, o in ops]), ("2h", ext, n, tuple(ops)))
            ctx.count("two-handle scripts")
            continue
        spec, _, eofs = spec_run(n, ops)
        # the same script with its integers given as narrow numpy integers: the same outputs
        if j % 3 == 0 and any(len(o) > 1 for o in ops):
            impl_np, _ = run_impl(path, ext, n_atoms, ref, ops, ai, None, numpy_ints=True)
            ctx.count("scripts repeated with numpy integer arguments")
            if impl_np != impl:
                seen_keys.setdefault("%s|numpy-integer-arguments" % ext, dict(ext=ext, n_frames=n, ops=[tok(o) for o in ops], got=impl_np, expected=impl, numpy_ints=True))
        nontriv = any(o[0] in ("r", "ra") for o in ops) and (ext == "arc" or any(o[0] in ("s", "d", "t") for o in ops))
        ctx.case(dict(ext=ext, n_frames=n, ops=[tok(o) for o in ops], atom_indices=ai, out=impl),
                 (ext, n, tuple(ops), tuple(ai or ())) if nontriv else None)
        ctx.count("scripts:" + ext)
        ctx.count("ops", len(ops))
        for o in ops:
            ctx.count("op:" + o[0])
        if any(eofs):
            ctx.count("scripts with a read reaching EOF")
        for e in errs:
            ctx.count("impl-error:" + e.split(":")[1])
        if ctx.driver_ok:
            if model[(j, "spec")] != spec:
                ctx.broke("oracle-vs-lean-spec", "python cursor oracle and Lean runSpec disagree on n=%d %s" % (n, [tok(o) for o in ops]))
            if impl != model[(j, None)]:
                ctx.broke("correspondence:cursor", "%s n=%d script %s atom_indices=%s: impl %s model %s" % (
                    ext, n, [tok(o) for o in ops], ai, impl, model[(j, None)]))
        if impl != spec:
            def fails(cand, ext=ext, n=n, ai=ai):
                got, _ = run_impl(path, ext, n_atoms, ref, cand, ai, None)
                return got != spec_run(n, cand)[0]
            small = shrink(n, ops, fails)
            got, errs2 = run_impl(path, ext, n_atoms, ref, small, ai, None)
            key, at = classify(ext, n, small, got)
            if key not in seen_keys:
                seen_keys[key] = dict(ext=ext, n_frames=n, ops=[tok(o) for o in small], atom_indices=ai, got=got,
                                      expected=spec_run(n, small)[0], errors=errs2, first_divergence=at)
    # ---- a .dcd file with fixed atoms (NAMD style: the first frame holds every atom, later frames the free ones): histories with
    # backward seeks against the frames the file was built from
    import struct
    from mdtraj.formats import DCDTrajectoryFile

    def build_fixed(path_, N=6, fixed=(1, 4), nframes=6, seed_=3):
        rs = np.random.RandomState(seed_)
        free = [i for i in range(N) if i not in fixed]
        X = (rs.rand(nframes, N, 3) * 10).astype("<f4")
        X[:, list(fixed)] = X[0, list(fixed)]
        rec = lambda b: struct.pack("<i", len(b)) + b + struct.pack("<i", len(b))
        hdr = b"CORD" + struct.pack("<9i", nframes, 0, 1, nframes, 0, 0, 0, 0, len(fixed)) + struct.pack("<f", 1.0) + struct.pack("<i", 0) + struct.pack("<8i", *([0] * 8)) + struct.pack("<i", 24)
        out = rec(hdr) + rec(struct.pack("<i", 2) + b" " * 160) + rec(struct.pack("<i", N)) + rec(struct.pack("<%di" % len(free), *[i + 1 for i in free]))
        for f_ in range(nframes):
            sel = list(range(N)) if f_ == 0 else free
            for k_ in range(3):
                out += rec(X[f_, sel, k_].tobytes())
        open(path_, "wb").write(out)
        return X
    fpath = os.path.join(ctx.scratch, "fixed.dcd")
    Xf = build_fixed(fpath)
    for hk in range(ctx.n(12, 60)):
        fh = DCDTrajectoryFile(fpath)
        pos, log, bad = 0, [], None
        for _ in range(rng.randrange(2, 7)):
            if rng.random() < 0.5:
                kk = rng.randrange(0, len(Xf)); fh.seek(kk); pos = kk; log.append("seek(%d)" % kk)
            else:
                nn = rng.randrange(1, 4)
                got = fh.read(nn)[0]; log.append("read(%d)" % nn)
                want = Xf[pos:pos + nn]; pos = min(len(Xf), pos + nn)
                if got.shape != want.shape or not np.allclose(got, want, atol=1e-5):
                    bad = "%s returned %d frames%s, the file holds frames %s there" % (log[-1], got.shape[0], "" if got.shape != want.shape else " with other coordinates", list(range(pos - len(want), pos)))
                    break
                if fh.tell() != pos:
                    bad = "tell() is %d after %s, expected %d" % (fh.tell(), "; ".join(log), pos); break
        fh.close()
        ctx.case(None, ("fixed-atoms-dcd", hk)); ctx.count("histories on a .dcd file with fixed atoms")
        if bad:
            ctx.violation("dcd|fixed-atoms|history", ".dcd file with fixed atoms, history %s: %s" % ("; ".join(log), bad), dict(ops=log))
            break
    # ---- longer files, positions and counts beyond the range of the narrow types (np.uint8(200), np.int8(100)): the arithmetic of the cursor
    # must not be done in the type of the argument
    for ext in ("h5", "nc", "xtc", "dcd", "trr", "xyz"):
        try:
            path, n_atoms, ref = files.get(ext, 300)
        except Exception as e:  # noqa: BLE001
            ctx.broke("harness:long-file", "%s: %s" % (ext, e)); continue
        for ops in ([("s", 100), ("r", 200), ("t",)], [("s", 100), ("r", 100), ("t",), ("r", 60), ("t",)], [("s", 200), ("d", -60), ("r", 100), ("t",), ("l",)],
                    [("r", 130), ("r", 130), ("t",), ("d", -120), ("t",)]):
            got, _ = run_impl(path, ext, n_atoms, ref, ops, None, None, numpy_ints=True)
            spec, _, _ = spec_run(300, ops)
            ctx.case(None, ("long", ext, tuple(ops))); ctx.count("scripts on 300-frame files with narrow numpy integers")
            if got != spec:
                short = lambda l: [x if len(x) < 30 else x[:12] + "…" + x[-12:] for x in l]
                seen_keys.setdefault("%s|numpy-integer-arguments" % ext, dict(ext=ext, n_frames=300, ops=[tok(o) for o in ops], got=short(got), expected=short(spec), numpy_ints=True))
    for key, rp in seen_keys.items():
        ctx.violation(key, "%s file object, %d frames, script %s%s: got %s, %s %s" % (
            rp["ext"], rp["n_frames"], rp["ops"], " with its integers given as narrow numpy integers" if rp.get("numpy_ints") else "", rp["got"],
            "with Python integers" if rp.get("numpy_ints") else "cursor semantics give", rp["expected"]), rp)


def replay(ctx, path):
    import json
    rp = json.load(open(path))["replay"]
    files = Files(ctx)
    ext, n = rp["ext"], rp["n_frames"]
    ops = []
    for t in rp["ops"]:
        ops.append((t,) if t in ("ra", "t", "l") else (t[0], int(t[1:])))
    p, na, ref = files.get(ext, n if ext != "arc" else 0)
    got, errs = run_impl(p, ext, na, ref, ops, rp.get("atom_indices"))
    exp = spec_run(n, ops)[0]
    print("script", rp["ops"], "\n got     ", got, "\n expected", exp, "\n errors", errs)
    return 1 if got != exp else 0
