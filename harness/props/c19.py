"""C19: incremental writing equals one-shot writing and survives a crash.
Correspondence: write/flush histories (with ragged attempts) through the real file objects vs Model/Writer.lean
(driver `writer`): accepted flags and the frames found after close, and after a kill for the flushed formats.
Oracle: the loaded file against the frames of the accepted writes (ids, times, cells); every ordered partition."""
import itertools
import os
import shutil
import signal
import warnings

import numpy as np

import trajfiles as tf
from common import isolated

MODELLED = ["h5", "nc", "dtr", "xtc", "trr", "dcd", "mdcrd", "lammpstrj", "xyz", "gro"]
STORES_TIME = {"h5", "nc", "dtr", "xtc", "trr", "gro"}
STORES_CELL = {"h5", "nc", "dtr", "xtc", "trr", "dcd", "mdcrd", "lammpstrj", "gro", "pdb"}
NEEDS_CELL = {"lammpstrj", "dtr"}
NEEDS_TIME = {"dtr"}
HAS_FLUSH = {"h5", "nc", "xtc"}
A = 10.0


class Src:
    def __init__(self, md, n):
        self.md = md
        self.t = tf.make_traj(n, 12)
        self.t.time = np.arange(n) * 2.0 + 1
        self.top_path = None


def do_write(ext, f, src, ids, natoms, cell, time):
    t = src.t[ids]
    xyz = t.xyz[:, :natoms] if natoms <= 12 else np.concatenate([t.xyz, t.xyz[:, :natoms - 12]], axis=1)
    L = t.unitcell_lengths if cell else None
    Ang = t.unitcell_angles if cell else None
    T = t.time if time else None
    V = t.unitcell_vectors if cell else None
    if ext == "h5":
        f.write(xyz, time=T, cell_lengths=L, cell_angles=Ang)
    elif ext == "nc":
        f.write(xyz * A, time=T, cell_lengths=None if L is None else L * A, cell_angles=Ang)
    elif ext in ("xtc", "trr"):
        f.write(xyz, time=T, box=V)
    elif ext == "dcd":
        f.write(xyz * A, cell_lengths=None if L is None else L * A, cell_angles=Ang)
    elif ext == "mdcrd":
        f.write(xyz * A, cell_lengths=None if L is None else L * A)
    elif ext == "xyz":
        f.write(xyz * A)
    elif ext == "lammpstrj":
        f.write(xyz * A, None if L is None else L * A, Ang)
    elif ext == "dtr":
        f.write(xyz * A, cell_lengths=None if L is None else L * A, cell_angles=Ang, times=T)
    elif ext == "gro":
        f.write(xyz, t.topology if natoms == 12 else t.topology.subset(range(natoms)), time=T, unitcell_vectors=V)
    elif ext == "pdb":
        for k in range(len(t)):
            f.write(xyz[k] * A, t.topology, modelIndex=ids[k], unitcell_lengths=None if L is None else tuple(L[k] * A), unitcell_angles=None if Ang is None else tuple(Ang[k]))


def load(md, ext, p, top, natoms=12):
    if ext in ("h5", "gro", "pdb"):
        return md.load(p)
    return md.load(p, top=top)


def clean(p):
    if os.path.isdir(p):
        shutil.rmtree(p)
    elif os.path.exists(p):
        os.remove(p)


def run_history(md, ext, src, top, path, ops, crash=None):
    """ops: list of ('w', ids, natoms, cell, time) | ('f',).  crash: None (close) or 'exit'/'kill' (no close).
    -> (accepted flags, loaded ids, loaded traj or None, error)"""
    clean(path)
    flags = []

    alive = []          # the file object must outlive child(): dropping the last reference closes the file, which is not a crash

    def child():
        f = md.open(path, "w")
        alive.append(f)
        fl = []
        for op in ops:
            if op[0] == "f":
                if hasattr(f, "flush"):
                    f.flush()                                 # DCD has no flush(): its writes are unbuffered, a returned write is on disk
            else:
                try:
                    do_write(ext, f, src, op[1], op[2], op[3], op[4])
                    fl.append("1")
                except Exception as e:  # noqa: BLE001  (a refusal, of whatever type: what the file holds afterwards is what counts)
                    fl.append("0")
        if crash is None:
            f.close()
        return fl

    if crash is None:
        flags = child()
    else:
        def crashing():
            fl = child()
            with open(path + ".flags", "w") as fh:
                fh.write("".join(fl))
            if crash == "kill":
                os.kill(os.getpid(), signal.SIGKILL)
            os._exit(0)
        st, res = isolated(crashing, timeout=60)
        flags = list(open(path + ".flags").read()) if os.path.exists(path + ".flags") else []
        if os.path.exists(path + ".flags"):
            os.remove(path + ".flags")
    try:
        t = load(md, ext, path, top)
        ids = tf.frame_ids(t.xyz, 1.0)
        return flags, ids, t, None
    except Exception as e:  # noqa: BLE001
        return flags, None, None, "%s: %s" % (type(e).__name__, str(e)[:120])


def tok(op):
    if op[0] == "f":
        return "f"
    return "w%s:%d:%d:%d" % (",".join(map(str, op[1])), op[2], 1 if op[3] else 0, 1 if op[4] else 0)


def gen_history(rng, ext, n):
    cell = True if ext in NEEDS_CELL else (False if ext == "xyz" else rng.random() < 0.6)
    time = True if ext in NEEDS_TIME else rng.random() < 0.6
    ops, nxt = [], 0
    while nxt < n and len(ops) < 8:
        k = rng.randrange(1, min(3, n - nxt) + 1)
        ids = list(range(nxt, nxt + k))
        r = rng.random()
        if r < 0.7 or not ops:
            ops.append(("w", ids, 12, cell, time)); nxt += k
        elif r < 0.78:
            ops.append(("w", ids, rng.choice([11, 13]), cell, time))
        elif r < 0.86:
            if ext in NEEDS_CELL and cell:
                continue
            ops.append(("w", ids, 12, not cell, time))
        elif r < 0.94:
            if ext in NEEDS_TIME and time:
                continue
            ops.append(("w", ids, 12, cell, not time))
        elif ext in HAS_FLUSH:
            ops.append(("f",))
    return ops


def compositions(n):
    for bits in itertools.product([0, 1], repeat=n - 1):
        parts, cur = [], [0]
        for i, b in enumerate(bits):
            if b:
                parts.append(cur); cur = [i + 1]
            else:
                cur.append(i + 1)
        parts.append(cur)
        yield parts


def run(ctx):
    warnings.filterwarnings("ignore")
    import mdtraj as md
    ctx.rule = ("(1) every ordered partition of n frames into consecutive write calls, per streaming format, with and without cell/time; "
                "(2) random write/flush histories with ragged attempts (atom count, adding/dropping cell or time) at every position; "
                "(3) kill experiments (os._exit and SIGKILL in a child process) after write+flush for h5, nc, xtc and after write for dcd (unbuffered, no flush()); "
                "non-trivial = distinct (format, history) with at least two writes")
    ctx.assumptions += ["what HDF5/netCDF/stdio/the kernel persist at a kill is observed, not proved; DCD and TRR have no flush()",
                        "xtc/trr accept a write without time and fill 0,1,2,... (documented): not treated as ragged",
                        "the pdb writer takes the topology per call and writes one model per call; it is checked for partition independence only"]
    rng = ctx.rng
    n = ctx.n(5, 7)
    src = Src(md, 8)
    top = os.path.join(ctx.scratch, "top.pdb")
    src.t[0].save(top)
    seen = {}

    def viol(key, what, rp):
        seen.setdefault(key, (what, rp))

    # ---- (1) partitions
    for ext in MODELLED + ["pdb"]:
        for cell, time in ((True, True), (False, False)):
            if (ext in NEEDS_CELL and not cell) or (ext in NEEDS_TIME and not time) or (ext == "xyz" and cell):
                continue
            path = os.path.join(ctx.scratch, "p." + ext)
            one = [("w", list(range(n)), 12, cell, time)]
            _, ids1, t1, err1 = run_history(md, ext, src, top, path, one)
            if err1 or ids1 != list(range(n)):
                viol("%s|one-shot" % ext, "one-shot write of %d frames to .%s (cell=%s time=%s) loads as %s %s" % (n, ext, cell, time, ids1, err1),
                     dict(ext=ext, ops=[tok(o) for o in one]))
                continue
            parts = list(compositions(n))
            if ctx.quick:
                parts = rng.sample(parts, 6) + [[[i] for i in range(n)]]
            for parts_ in parts:
                ops = [("w", p_, 12, cell, time) for p_ in parts_]
                flags, ids, t, err = run_history(md, ext, src, top, path, ops)
                ctx.case(dict(ext=ext, partition=[len(p_) for p_ in parts_], cell=cell, time=time), (ext, tuple(map(tuple, parts_)), cell, time) if len(parts_) > 1 else None)
                ctx.count("partitions:" + ext)
                bad = None
                timekey = ""
                if err or ids != ids1:
                    bad = "loads as %s %s" % (ids, err)
                elif not np.array_equal(t.xyz, t1.xyz):
                    bad = "coordinates differ from the one-shot file"
                elif not np.allclose(t.time, t1.time):
                    # with or without time stamps handed to write(): what the file reports must not depend on how the frames were split
                    bad = "times %s differ from the one-shot file's %s" % (t.time, t1.time)
                    timekey = "" if time else "|no-time-given"
                elif (t.unitcell_lengths is None) != (t1.unitcell_lengths is None) or (t.unitcell_lengths is not None and not np.allclose(t.unitcell_lengths, t1.unitcell_lengths)):
                    bad = "unit cells differ from the one-shot file"
                if bad:
                    viol("%s|partition%s" % (ext, timekey), "writing %d frames to .%s in calls of sizes %s: %s" % (n, ext, [len(p_) for p_ in parts_], bad),
                         dict(ext=ext, ops=[tok(o) for o in ops]))
    if not ctx.quick:
        ctx.notes.append("all 2^(n-1) ordered partitions for n=%d, every format" % n)

    # ---- (2) histories with ragged attempts, against the model
    hist = []
    for ext in MODELLED:
        for _ in range(ctx.n(25, 200)):
            hist.append((ext, gen_history(rng, ext, 8)))
    model = ctx.driver.query(["writer %s %s" % (e, ";".join(tok(o) for o in ops)) for e, ops in hist]) if ctx.driver_ok else [None] * len(hist)
    for (ext, ops), m in zip(hist, model):
        path = os.path.join(ctx.scratch, "h." + ext)
        flags, ids, t, err = run_history(md, ext, src, top, path, ops)
        nw = sum(1 for o in ops if o[0] == "w")
        ctx.case(dict(ext=ext, ops=[tok(o) for o in ops], accepted="".join(flags)), (ext, tuple(tok(o) for o in ops)) if nw > 1 else None)
        ctx.count("histories:" + ext)
        ctx.count("refused writes", flags.count("0"))
        # oracle: frames of the accepted writes, in order
        want, k = [], 0
        base = None
        ragged_accepted = None
        for o in ops:
            if o[0] != "w":
                continue
            sch = (o[2], o[3] if ext in STORES_CELL else None, o[4] if ext in STORES_TIME and ext not in ("xtc", "trr") else None)
            if flags[k] == "1":
                want += o[1]
                if base is None:
                    base = sch
                elif sch != base:
                    ragged_accepted = tok(o)
            k += 1
        rp = dict(ext=ext, ops=[tok(o) for o in ops])
        if ragged_accepted:
            viol("%s|ragged-accepted" % ext, ".%s accepted the ragged write %s in history %s" % (ext, ragged_accepted, rp["ops"]), rp)
        if err:
            viol("%s|unloadable-after-refusal" % ext, ".%s history %s (accepted %s): the file does not load: %s" % (ext, rp["ops"], "".join(flags), err), rp)
        elif ids != want:
            viol("%s|frames-after-refusal" % ext, ".%s history %s (accepted %s): file holds frames %s, accepted writes were %s" % (ext, rp["ops"], "".join(flags), ids, want), rp)
        elif ext in STORES_TIME and ext not in ("xtc", "trr") and base and base[2] and not np.allclose(t.time, src.t.time[want]):
            viol("%s|times" % ext, ".%s history %s: times %s, expected %s" % (ext, rp["ops"], t.time, src.t.time[want]), rp)
        if m is not None:
            mc = m.split(" ")[0].split("=")[1]
            macc = m.split("acc=")[1]
            got = "close=%s acc=%s" % (",".join(map(str, ids or [])), "".join(flags))
            if "close=%s acc=%s" % (mc, macc) != got:
                ctx.broke("correspondence:writer-history", ".%s history %s: impl %s, model close=%s acc=%s" % (ext, rp["ops"], got, mc, macc))

    # ---- (2b) refusals that are not about the file layout: a refused write must still leave exactly the frames accepted before
    for k in range(ctx.n(6, 30)):
        n_ok = rng.randrange(1, 4)
        path = os.path.join(ctx.scratch, "ovf.mdcrd")
        clean(path)
        f = md.open(path, "w")
        do_write("mdcrd", f, src, list(range(n_ok)), 12, True, True)
        bad = src.t.xyz[n_ok:n_ok + 3].copy() * 10
        bad[rng.randrange(0, 3), rng.randrange(12), rng.randrange(3)] = rng.choice([2.0e5, -1.5e4])       # does not fit '%8.3f'
        refused = False
        try:
            f.write(bad, cell_lengths=src.t.unitcell_lengths[n_ok:n_ok + 3] * 10)
        except ValueError:
            refused = True
        f.close()
        t_ = load(md, "mdcrd", path, top)
        ctx.case(None, ("overflow-refusal", k)); ctx.count("overflow refusals: mdcrd")
        if not refused or tf.frame_ids(t_.xyz, 1.0) != list(range(n_ok)):
            viol("mdcrd|refused-write-leaves-frames", ".mdcrd: %d frames written, then a 3-frame call holding a value beyond the eight-column field was %s: the file loads with frames %s" % (
                n_ok, "refused" if refused else "accepted", tf.frame_ids(t_.xyz, 1.0)), dict(ext="mdcrd", accepted=n_ok))
    from mdtraj.formats import PDBTrajectoryFile
    for k in range(ctx.n(3, 12)):
        n_ok = rng.randrange(1, 4)
        path = os.path.join(ctx.scratch, "rag.pdb")
        clean(path)
        fh = PDBTrajectoryFile(path, "w")
        for i in range(n_ok):
            fh.write(src.t.xyz[i] * 10, src.t.topology, modelIndex=i)
        refused = False
        try:
            fh.write(src.t.xyz[n_ok][:11] * 10, src.t.topology.subset(range(11)), modelIndex=n_ok)
        except ValueError:
            refused = True
        fh.close()
        ctx.case(None, ("pdb-ragged", k)); ctx.count("ragged attempts: pdb")
        try:
            ids_ = tf.frame_ids(md.load(path).xyz, 1.0)
        except Exception as e:  # noqa: BLE001
            ids_ = "unreadable (%s)" % type(e).__name__
        if not refused or ids_ != list(range(n_ok)):
            viol("pdb|ragged-atom-count", ".pdb: %d models of 12 atoms written, then a model of 11 atoms was %s: the file loads as %s" % (n_ok, "refused" if refused else "accepted", ids_), dict(ext="pdb", accepted=n_ok))

    # ---- (2c) a model the PDB writer cannot format (a coordinate beyond its columns) is refused as a whole; single frames given as 2-D
    # arrays and atom types given as arrays are accepted by the text writers that document them
    for k in range(ctx.n(3, 10)):
        n_ok = rng.randrange(1, 4)
        path = os.path.join(ctx.scratch, "big.pdb")
        clean(path)
        fh = PDBTrajectoryFile(path, "w")
        for i in range(n_ok):
            fh.write(src.t.xyz[i] * 10, src.t.topology, modelIndex=i)
        bad = (src.t.xyz[n_ok] * 10).copy(); bad[rng.randrange(2, 12), rng.randrange(3)] = 1e9
        refused = False
        try:
            fh.write(bad, src.t.topology, modelIndex=n_ok)
        except ValueError:
            refused = True
        fh.write(src.t.xyz[n_ok] * 10, src.t.topology, modelIndex=n_ok)
        fh.close()
        ctx.case(None, ("pdb-unwritable-model", k)); ctx.count("refused models: pdb")
        try:
            ids_ = tf.frame_ids(md.load(path).xyz, 1.0)
        except Exception as e:  # noqa: BLE001
            ids_ = "unreadable (%s)" % type(e).__name__
        if not refused or ids_ != list(range(n_ok + 1)):
            viol("pdb|refused-model-leaves-lines", ".pdb: %d models written, a model with the coordinate 1e9 was %s, one more model written: the file loads as %s" % (n_ok, "refused" if refused else "accepted", ids_), dict(ext="pdb", accepted=n_ok))
    for ext_ in ("xyz", "lammpstrj"):
        path = os.path.join(ctx.scratch, "one." + ext_)
        clean(path)
        ctx.case(None, ("single-frame-2d", ext_)); ctx.count("single frames as 2-D arrays: " + ext_)
        try:
            f = md.open(path, "w")
            kw = dict(cell_lengths=src.t.unitcell_lengths[:1] * 10, cell_angles=src.t.unitcell_angles[:1]) if ext_ == "lammpstrj" else {}
            f.write(src.t.xyz[0] * 10, **kw)                                              # one frame, shape (n_atoms, 3)
            kw = dict(cell_lengths=src.t.unitcell_lengths[1:3] * 10, cell_angles=src.t.unitcell_angles[1:3]) if ext_ == "lammpstrj" else {}
            f.write(src.t.xyz[1:3] * 10, types=np.array(["C"] * 12) if ext_ == "xyz" else np.arange(1, 13), **kw)   # types as the documented ndarray
            f.close()
            ids_ = tf.frame_ids(load(md, ext_, path, top).xyz, 1.0)
        except Exception as e:  # noqa: BLE001
            ids_ = "%s: %s" % (type(e).__name__, str(e)[:80])
        if ids_ != [0, 1, 2]:
            viol("%s|single-frame-2d-or-types-array" % ext_, ".%s: write(one frame as a 2-D array) then write(two frames, types=<ndarray>) gives %s" % (ext_, ids_), dict(ext=ext_))

    # ---- (3) kill experiments
    for ext in sorted(HAS_FLUSH | {"dcd"}):                       # the four formats the property names for live simulation output
        for mode in ("exit", "kill"):
            for _ in range(ctx.n(3, 12)):
                k = rng.randrange(1, 5)
                ops, nxt = [], 0
                for _i in range(k):
                    sz = rng.randrange(1, 3)
                    ops.append(("w", list(range(nxt, nxt + sz)), 12, True, True)); nxt += sz
                ops.append(("f",))
                path = os.path.join(ctx.scratch, "k." + ext)
                flags, ids, t, err = run_history(md, ext, src, top, path, ops, crash=mode)
                ctx.case(dict(ext=ext, crash=mode, ops=[tok(o) for o in ops]), (ext, mode, tuple(tok(o) for o in ops)))
                ctx.count("kill experiments:" + ext)
                want = list(range(nxt))
                if ext == "dcd" and ctx.driver_ok and os.path.exists(path) and os.path.getsize(path) <= 40000:
                    # the control record of the file the killed writer left behind, read by the byte-level model (c19_dcd_header_counts)
                    mh = ctx.driver.query(["dcd " + open(path, "rb").read().hex()])[0]
                    ctx.count("killed .dcd files read by the Lean model")
                    if not mh.startswith("ok"):
                        viol("dcd|killed-file|model-reader", ".dcd: %s then the process was %s: the byte-level model cannot follow the file (%s)" % ([tok(o) for o in ops], mode, mh[:40]), dict(ext=ext, ops=[tok(o) for o in ops], crash=mode))
                    else:
                        nset_ = int(mh.split(";")[0].split()[1]); held_ = len(mh.split(";")) - 1
                        if nset_ != nxt or held_ != nxt:
                            viol("dcd|header-count-after-kill", ".dcd: %s then the process was %s: the control record counts %d frames, the file holds %d, %d were written" % (
                                [tok(o) for o in ops], mode, nset_, held_, nxt), dict(ext=ext, ops=[tok(o) for o in ops], crash=mode))
                if err or ids != want:
                    viol("%s|lost-after-flush|%s" % (ext, mode), ".%s: %s then the process was %s: the file loads as %s %s, written and flushed: %s" % (
                        ext, [tok(o) for o in ops], "killed (SIGKILL)" if mode == "kill" else "ended by os._exit", ids, err or "", want),
                         dict(ext=ext, ops=[tok(o) for o in ops], crash=mode))
    # ---- (4) kill experiments in an append session: a first session writes and closes; a second opens the file with mode='a',
    # writes, flushes and is killed: everything flushed in both sessions must be there
    for ext in ("h5",):
        for mode in ("exit", "kill"):
            for _ in range(ctx.n(3, 10)):
                first = rng.randrange(1, 4)
                more = []
                for _i in range(rng.randrange(1, 4)):
                    sz = rng.randrange(1, 3)
                    if first + sum(more) + sz <= 8:          # the source trajectory has 8 tagged frames
                        more.append(sz)
                path = os.path.join(ctx.scratch, "a." + ext)
                clean(path)
                f = md.open(path, "w")
                do_write(ext, f, src, list(range(first)), 12, True, True)
                f.close()

                def session():
                    g = md.open(path, "a")
                    nxt = first
                    for sz in more:
                        do_write(ext, g, src, list(range(nxt, nxt + sz)), 12, True, True); nxt += sz
                    g.flush()
                    if mode == "kill":
                        os.kill(os.getpid(), signal.SIGKILL)
                    os._exit(0)
                isolated(session, timeout=60)
                want = list(range(first + sum(more)))
                ctx.case(dict(ext=ext, crash=mode, session="append", first=first, appended=more), (ext, mode, "append", first, tuple(more)))
                ctx.count("append-session kill experiments:" + ext)
                try:
                    t = load(md, ext, path, top)
                    ids, err = tf.frame_ids(t.xyz, 1.0), None
                except Exception as e:  # noqa: BLE001
                    ids, err = None, "%s: %s" % (type(e).__name__, str(e)[:120])
                if err or ids != want:
                    viol("%s|lost-after-flush|append|%s" % (ext, mode), ".%s: %d frames written and closed, then opened with mode='a', %s frames appended and flushed, then the process was %s: the file loads as %s %s" % (
                        ext, first, more, "killed (SIGKILL)" if mode == "kill" else "ended by os._exit", ids, err or ""), dict(ext=ext, first=first, appended=more, crash=mode))
    for key, (what, rp) in seen.items():
        ctx.violation(key, what, rp)


def replay(ctx, path):
    import json
    print(json.load(open(path))["what"])
    return 1
