// Exposes the static DSSP stages of mdtraj/geometry/src/dssp.cpp (compiled from /repo's current source on every run) so that they can be
// driven with an arbitrary hydrogen-bond table: the same sequence of calls as dssp(), minus kabsch_sander.
#include DSSP_CPP
// dssp() references kabsch_sander (defined in geometry.cpp, not linked here); it is never called through this shim
void kabsch_sander(const float*, const int*, const int*, const int*, const int, const int, const int, int*, float*) {}
extern "C" {
// hbonds: n_residues x 2 acceptor indices per donor (-1 = none); skip: n_residues flags; out: n_residues chars
void shim_dssp_from_hbonds(const float* xyz, const int* ca_indices, const int* chain_ids, const int* hbonds, const int* skip_in,
                           int n_atoms, int n_residues, char* out) {
    std::vector<int> skip(skip_in, skip_in + n_residues);
    std::vector<ss_t> sec(n_residues, SS_LOOP);
    calculate_beta_sheets(chain_ids, hbonds, skip, n_residues, sec);
    calculate_alpha_helices(xyz, ca_indices, chain_ids, hbonds, skip, n_atoms, n_residues, sec);
    for (int j = 0; j < n_residues; j++) {
        char ss = ' ';
        switch (sec[j]) {
            case SS_ALPHAHELIX: ss = 'H'; break; case SS_BETABRIDGE: ss = 'B'; break; case SS_STRAND: ss = 'E'; break;
            case SS_HELIX_3: ss = 'G'; break; case SS_HELIX_5: ss = 'I'; break; case SS_TURN: ss = 'T'; break;
            case SS_BEND: ss = 'S'; break; case SS_LOOP: ss = ' '; break;
        }
        out[j] = ss;
    }
}
}
