// Exposes the static kernels of mdtraj/geometry/src/sasa.cpp (compiled from /repo's current source on every run).
#include SASA_CPP
extern "C" {
void shim_generate_sphere_points(float* out, int n) { generate_sphere_points(out, n); }
void shim_asa_frame(const float* frame, int n_atoms, const float* radii, const float* sphere_points, int n_sphere_points,
                    int* wb1, float* wb2, const int* mask, float* areas) {
    asa_frame(frame, n_atoms, radii, sphere_points, n_sphere_points, wb1, wb2, mask, areas);
}
}
