// Exposes class Voxels of mdtraj/geometry/src/neighborlist.cpp (compiled from /repo's current source on every run): construction,
// insertion, sorting, the two bisections, the voxel index, the per-atom neighbour scan and the whole _compute_neighborlist.
#include NBL_CPP
struct VoxBox { float box[3][3]; Voxels* v; };
extern "C" {
void* vox_new(float edgeY, float edgeZ, float miny, float maxy, float minz, float maxz, const float* box, int periodic) {
    VoxBox* b = new VoxBox;
    for (int i = 0; i < 3; i++) for (int j = 0; j < 3; j++) b->box[i][j] = box ? box[3*i+j] : (i == j ? 1.0f : 0.0f);
    b->v = new Voxels(edgeY, edgeZ, miny, maxy, minz, maxz, b->box, periodic != 0);
    return b;
}
void vox_free(void* p) { VoxBox* b = (VoxBox*) p; delete b->v; delete b; }
void vox_insert(void* p, int atom, const float* loc) { ((VoxBox*) p)->v->insert(atom, loc); }
void vox_sort(void* p) { ((VoxBox*) p)->v->sortItems(); }
int vox_lower(void* p, int y, int z, double x, int lo, int hi) { return ((VoxBox*) p)->v->findLowerBound(y, z, x, lo, hi); }
int vox_upper(void* p, int y, int z, double x, int lo, int hi) { return ((VoxBox*) p)->v->findUpperBound(y, z, x, lo, hi); }
void vox_index(void* p, const float* loc, int* out) { VoxelIndex i = ((VoxBox*) p)->v->getVoxelIndex(loc); out[0] = i.y; out[1] = i.z; }
int vox_neighbors(void* p, int atom, float maxDistance, const float* locs, int* out, int cap) {
    vector<int> nb;
    Voxels* v = ((VoxBox*) p)->v;
    v->getNeighbors(nb, atom, maxDistance, locs, v->getVoxelIndex(&locs[3*atom]));
    int n = (int) nb.size();
    for (int i = 0; i < n && i < cap; i++) out[i] = nb[i];
    return n;
}
}
