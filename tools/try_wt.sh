#!/bin/bash
# try_wt.sh <patched worktree> <Cxx> [tier]: run a check from a scratch copy of /verif (/tmp/vmut) against a patched worktree of
# /repo (MDV_REPO), so that /repo itself and the checks running on it are not disturbed.
wt="$1"; c="$2"; tier="${3:-quick}"
rsync -a --delete --exclude evidence/replay /verif/ /tmp/vmut/
cd /tmp/vmut && MDV_REPO="$wt" ./check "$c" --tier "$tier" 2>&1 | grep -v conda | cut -c1-400 | grep -v "^KNOWN" | tail -${LINES_OUT:-6}
echo "exit=${PIPESTATUS[0]}"
