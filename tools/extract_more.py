"""More generated tables (selection language; later: constants of the C kernels)."""
import ast


def tables(md, repo, lean_str_list):
    from mdtraj.core import selection as S
    out = []
    kind = {ast.And: "and", ast.Or: "or", ast.Not: "not", ast.Lt: "lt", ast.LtE: "le", ast.Eq: "eq", ast.NotEq: "ne", ast.GtE: "ge", ast.Gt: "gt"}
    ops = []
    for klass in (S.BinaryInfixOperand, S.UnaryInfixOperand):
        for sp, node in sorted(klass.keyword_aliases.items()):
            ops.append((sp.strip(), kind[type(node)]))
    for sp in sorted(S.RegexInfixOperand.keyword_aliases):
        ops.append((sp.strip(), "regex"))
    out.append("/-- selection operator spellings and their kind (BinaryInfixOperand/UnaryInfixOperand/RegexInfixOperand.keyword_aliases) -/")
    out.append("def selOps : List (String × String) := [" + ", ".join('("%s", "%s")' % o for o in ops) + "]")
    groups = {}
    for kw, node in S.SelectionKeyword.keyword_aliases.items():
        groups.setdefault(ast.unparse(node), []).append(kw)
    out.append("/-- selection keywords: attribute chain and all its spellings (SelectionKeyword.keyword_aliases) -/")
    out.append("def selKeywords : List (String × List String) := [" + ", ".join('("%s", %s)' % (k, lean_str_list(sorted(v))) for k, v in sorted(groups.items())) + "]")
    # DSSP simplified alphabet (mdtraj/geometry/dssp.py: SIMPLIFIED_CODE_TRANSLATION)
    from mdtraj.geometry import dssp as D
    tr = D.SIMPLIFIED_CODE_TRANSLATION
    out.append("/-- dssp.py SIMPLIFIED_CODE_TRANSLATION: full DSSP code -> simplified code -/")
    out.append("def dsspSimplified : List (Char × Char) := [" + ", ".join("('%s', '%s')" % (chr(k), chr(v) if isinstance(v, int) else v) for k, v in sorted(tr.items())) + "]")
    return out
