#!/usr/bin/env python3
"""Writes MANIFEST.json from the table below (kept in one place so it stays valid)."""
import json, os
ROOT = os.path.dirname(os.path.dirname(os.path.abspath(__file__)))
ALL = ["C%02d" % i for i in range(1, 21)]
CLAIMED = json.load(open(os.path.join(ROOT, "tools", "claims.json")))
checks = []
for pid in ALL:
    c = CLAIMED.get(pid)
    if not c or not c.get("claimed"):
        continue
    checks.append(dict(
        property_id=pid,
        quick_cmd="./check %s --tier quick" % pid,
        thorough_cmd="./check %s --tier thorough" % pid,
        evidence_file="evidence/%s.json" % pid,
        replay_cmd_template="./check %s --replay {path}" % pid,
        engine="lean4+correspondence",
        level_claimed=dict(category="proof", text=c["text"], design_ref=c.get("design_ref", "DESIGN.md section 6, " + pid)),
        level_note=c["note"],
        technique=c.get("technique", "Lean 4 theorems about a hand-written executable model + differential correspondence check against the real code"),
    ))
na = [dict(property_id=pid, reason=CLAIMED.get(pid, {}).get("reason", "check not built yet in this round; no claim is made"))
      for pid in ALL if not (CLAIMED.get(pid) or {}).get("claimed")]
m = dict(
    version=1,
    setup_cmd="./tools/setup.sh",
    hooks=dict(guard="MDTRAJ_VERIF", enable="no source hooks are needed: checks import /repo's Python sources directly and load extension modules rebuilt from /repo's C/C++ into /verif/.build/ext (harness/mdv_boot.py); C shims #include the repo's kernels",
               baseline_off_cmd="cd /repo && /venv/bin/python -m pytest -ra -q -p no:cacheprovider --timeout=900 --continue-on-collection-errors",
               source_commits=[], add_only=True),
    engines=[dict(name="lean4+correspondence", path="lean/ harness/ check", serves_properties=[c["property_id"] for c in checks],
                  kind_free_text="Lean 4.33 + Mathlib: executable models (lean/MdVerif/Model), theorems (lean/MdVerif/Properties), compiled driver; Python harness runs the real mdtraj and the driver on the same inputs and diffs; property oracles search for failing inputs")],
    checks=checks,
    notes="See DESIGN.md. Known findings: known_findings.json. VERIF_SEED seeds every random choice.",
    not_applicable=na,
)
json.dump(m, open(os.path.join(ROOT, "MANIFEST.json"), "w"), indent=1)
print("claimed:", [c["property_id"] for c in checks])
