#!/bin/bash
# Build everything the checks need from files on disk only (offline): extension modules from /repo's
# working tree, the generated Lean tables, the Lean library (models, proofs, property theorems) and the driver.
set -e
cd "$(dirname "$0")/.."
mkdir -p .build evidence/replay
/venv/bin/python tools/rebuild_ext.py > .build/rebuild.json || { cat .build/rebuild.json; exit 1; }
if [ -f tools/extract_tables.py ]; then /venv/bin/python tools/extract_tables.py; fi
cd lean
lake build MdVerif driver 2>&1 | tail -5
test -x .lake/build/bin/driver
echo setup-ok
