#!/usr/bin/env python3
"""Run the repository's pinned test command (guard OFF) and compare with BASELINE.json's stable_pass."""
import json, os, subprocess, sys, tempfile, xml.etree.ElementTree as ET
b = json.load(open("/root/.vp/BASELINE.json"))
out = tempfile.mkdtemp(prefix="mdv_base_") + "/junit.xml"
env = dict(os.environ); env.pop("MDTRAJ_VERIF", None)
cmd = b["cmd"].replace("<file>", out)
subprocess.run(cmd, shell=True, env=env, stdout=subprocess.DEVNULL, stderr=subprocess.DEVNULL)
passed = set()
for tc in ET.parse(out).getroot().iter("testcase"):
    if not any(ch.tag in ("failure", "error", "skipped") for ch in tc):
        passed.add(tc.get("classname") + "::" + tc.get("name"))
missing = [t for t in b["stable_pass"] if t not in passed]
print("stable_pass:", len(b["stable_pass"]), "passed now:", len(passed), "missing:", len(missing))
for m in missing[:40]:
    print("  MISSING", m)
sys.exit(1 if missing else 0)
