#!/bin/bash
# try_patch.sh <patch.diff> <Cxx> [tier]: apply a seeded change to /repo, run the check, undo the change.
p="$1"; c="$2"; tier="${3:-quick}"
git -C /repo apply "$p" || { echo "patch does not apply"; exit 3; }
cd /verif && ./check "$c" --tier "$tier" 2>&1 | grep -v conda | cut -c1-400 | grep -v "^KNOWN" | tail -${LINES_OUT:-6}
rc=${PIPESTATUS[0]}
git -C /repo checkout -- . 
echo "exit=$rc"
