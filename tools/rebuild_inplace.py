#!/venv/bin/python
"""Rebuild the compiled extension modules of an mdtraj checkout *in place* (writes the .so files next to the
sources, as `setup.py build_ext --inplace` would) from its current C/C++ sources plus the Cython-generated
C/C++ already in the tree.  Cython itself is not available here, so edits to .pyx/.pxi files have no effect.
usage: rebuild_inplace.py <checkout-root>"""
import os, shutil, sys, sysconfig
root = os.path.abspath(sys.argv[1])
os.environ["MDV_REPO"] = root
sys.path.insert(0, os.path.dirname(os.path.abspath(__file__)))
import rebuild_ext
rebuild_ext.REPO = root
rebuild_ext.OUT = os.path.join(root, ".ext_build")
res = rebuild_ext.build_all()
suffix = sysconfig.get_config_var("EXT_SUFFIX")
for r in res:
    print(r["name"], r["status"], r.get("log", "")[-800:])
    if r["status"] != "failed":
        dst = os.path.join(root, *r["name"].split(".")) + suffix
        shutil.copyfile(rebuild_ext.so_path(r["name"]), dst)
sys.exit(1 if any(r["status"] == "failed" for r in res) else 0)
