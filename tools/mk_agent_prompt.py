#!/usr/bin/env python3
"""mk_agent_prompt.py <Cxx> <worktree> [template]: the text given to a seeding sub-agent: the property (from properties.jsonl), its
scratch worktree, and the mechanisms of the changes already kept under seeded/ (so that it picks another one).  Nothing from /verif
besides the property text goes into the prompt."""
import json, os, re, sys

pid, wt = sys.argv[1], sys.argv[2]
here = os.path.dirname(os.path.abspath(__file__))
tmpl = open(sys.argv[3] if len(sys.argv) > 3 else os.path.join(here, "agent_prompt.txt")).read()
prop = next(json.loads(l) for l in open(os.path.join(here, "..", "properties.jsonl")) if json.loads(l)["id"] == pid)
block = "id: %s\ntitle: %s\nstatement: %s\nquantifier: %s\nwhy tests cannot settle it: %s\nanchors (where in the code it lives): %s\n" % (
    pid, prop["title"], prop["statement"], prop["quantifier"], prop["why_tests_cant"], json.dumps(prop["anchors"]))
earlier = sorted(d[len(pid) + 1:] for d in os.listdir(os.path.join(here, "..", "seeded")) if d.startswith(pid + "-"))
print(tmpl.replace("@PROPERTY@", block).replace("@WT@", wt).replace("@EARLIER@", ", ".join(earlier) or "none yet"))
