#!/venv/bin/python
"""Rebuild mdtraj's compiled extension modules from /repo's *current working tree*
into /verif/.build/ext (never touching /repo), with a content-hash cache.

Cython is not available in this sandbox, so the Cython-generated C/C++ that is
already in the tree (git-ignored) is compiled together with the tree's current
hand-written C/C++ sources and headers.  A change to a .pyx/.pxi therefore cannot
be compiled; `pyx_drift()` detects it by comparing the source lines Cython embedded
in the generated file with the current .pyx/.pxi text.

usage: rebuild_ext.py [--jobs N] [names...]      prints a JSON summary
"""
import hashlib
import json
import os
import re
import subprocess
import sys
import sysconfig
from concurrent.futures import ThreadPoolExecutor

REPO = os.environ.get("MDV_REPO", "/repo")
ROOT = os.path.dirname(os.path.dirname(os.path.abspath(__file__)))
OUT = os.path.join(ROOT, ".build", "ext")

WARN = ["-Wno-unused-function", "-Wno-unreachable-code", "-Wno-sign-compare"]
OPT = ["-fopenmp", "-msse2", "-mssse3", "-O3", "-funroll-loops"]

EXTS = {
    "mdtraj.formats.xtc": dict(
        src=["mdtraj/formats/xtc/src/xdrfile.c", "mdtraj/formats/xtc/src/xdr_seek.c",
             "mdtraj/formats/xtc/src/xdrfile_xtc.c"],
        gen="mdtraj/formats/xtc/xtc.c", pyx=["mdtraj/formats/xtc/xtc.pyx"],
        inc=["mdtraj/formats/xtc/include", "mdtraj/formats/xtc"], flags=WARN, cxx=False),
    "mdtraj.formats.trr": dict(
        src=["mdtraj/formats/xtc/src/xdrfile.c", "mdtraj/formats/xtc/src/xdr_seek.c",
             "mdtraj/formats/xtc/src/xdrfile_trr.c"],
        gen="mdtraj/formats/xtc/trr.c", pyx=["mdtraj/formats/xtc/trr.pyx"],
        inc=["mdtraj/formats/xtc/include", "mdtraj/formats/xtc"], flags=WARN, cxx=False),
    "mdtraj.formats.dcd": dict(
        src=["mdtraj/formats/dcd/src/dcdplugin.c"],
        gen="mdtraj/formats/dcd/dcd.c", pyx=["mdtraj/formats/dcd/dcd.pyx"],
        inc=["mdtraj/formats/dcd/include", "mdtraj/formats/dcd"], flags=WARN, cxx=False),
    "mdtraj.formats.dtr": dict(
        src=["mdtraj/formats/dtr/src/dtrplugin.cxx"],
        gen="mdtraj/formats/dtr/dtr.cpp", pyx=["mdtraj/formats/dtr/dtr.pyx"],
        inc=["mdtraj/formats/dtr/include", "mdtraj/formats/dtr"], flags=WARN, cxx=True,
        defs=["-DDESRES_READ_TIMESTEP2=1"]),
    "mdtraj._rmsd": dict(
        src=["mdtraj/rmsd/src/theobald_rmsd.cpp", "mdtraj/rmsd/src/rotation.cpp", "mdtraj/rmsd/src/center.cpp"],
        gen="mdtraj/rmsd/_rmsd.cpp", pyx=["mdtraj/rmsd/_rmsd.pyx"],
        inc=["mdtraj/rmsd/include"], flags=OPT + WARN, cxx=True),
    "mdtraj._lprmsd": dict(
        src=["mdtraj/rmsd/src/theobald_rmsd.cpp", "mdtraj/rmsd/src/rotation.cpp", "mdtraj/rmsd/src/center.cpp",
             "mdtraj/rmsd/src/fancy_index.cpp", "mdtraj/rmsd/src/Munkres.cpp",
             "mdtraj/rmsd/src/euclidean_permutation.cpp"],
        gen="mdtraj/rmsd/_lprmsd.cpp", pyx=["mdtraj/rmsd/_lprmsd.pyx"],
        inc=["mdtraj/rmsd/include"], flags=OPT + WARN, cxx=True),
    "mdtraj.geometry._geometry": dict(
        src=["mdtraj/geometry/src/sasa.cpp", "mdtraj/geometry/src/dssp.cpp", "mdtraj/geometry/src/geometry.cpp"],
        gen="mdtraj/geometry/src/_geometry.cpp",
        pyx=["mdtraj/geometry/src/_geometry.pyx", "mdtraj/geometry/src/image_molecules.pxi"],
        inc=["mdtraj/geometry/include", "mdtraj/geometry/src/kernels"], flags=OPT + WARN, cxx=True),
    "mdtraj.geometry.drid": dict(
        src=["mdtraj/geometry/src/dridkernels.cpp", "mdtraj/geometry/src/moments.cpp"],
        gen="mdtraj/geometry/drid.cpp", pyx=["mdtraj/geometry/drid.pyx"],
        inc=["mdtraj/geometry/include"], flags=OPT + WARN, cxx=True),
    "mdtraj.geometry.neighbors": dict(
        src=["mdtraj/geometry/src/neighbors.cpp"],
        gen="mdtraj/geometry/neighbors.cpp", pyx=["mdtraj/geometry/neighbors.pyx"],
        inc=["mdtraj/geometry/include"], flags=OPT + WARN, cxx=True),
    "mdtraj.geometry.neighborlist": dict(
        src=["mdtraj/geometry/src/neighborlist.cpp"],
        gen="mdtraj/geometry/neighborlist.cpp", pyx=["mdtraj/geometry/neighborlist.pyx"],
        inc=["mdtraj/geometry/include"], flags=OPT + WARN, cxx=True),
}


def so_path(name):
    return os.path.join(OUT, name.replace(".", "__") + ".so")


def _files_for(spec):
    """everything the compilation can read: the sources, the generated Cython file, and every header or includable source in the include
    directories AND in the directories of the sources themselves (e.g. mdtraj/rmsd/src/rotation_sse.h is included from rotation.cpp), one
    level of sub-directories included"""
    fs = list(spec["src"]) + [spec["gen"]]
    dirs = list(spec["inc"]) + sorted(set(os.path.dirname(f) for f in spec["src"]))
    seen = set(fs)
    for d in dirs:
        ad = os.path.join(REPO, d)
        if not os.path.isdir(ad):
            continue
        subs = [d] + [os.path.join(d, x) for x in sorted(os.listdir(ad)) if os.path.isdir(os.path.join(ad, x))]
        for sd in subs:
            for fn in sorted(os.listdir(os.path.join(REPO, sd))):
                if fn.endswith((".h", ".hpp", ".hxx", ".pxd", ".inl", ".inc", ".c", ".cpp", ".cxx")):
                    f = os.path.join(sd, fn)
                    if f not in seen:
                        seen.add(f); fs.append(f)
    return fs


def _hash(spec):
    h = hashlib.sha256()
    h.update(repr((spec["flags"], spec.get("defs"))).encode())
    for f in _files_for(spec):
        p = os.path.join(REPO, f)
        h.update(f.encode())
        try:
            with open(p, "rb") as fh:
                h.update(fh.read())
        except OSError:
            h.update(b"<missing>")
    return h.hexdigest()


def _includes():
    import numpy
    return ["-I" + numpy.get_include(), "-I" + sysconfig.get_paths()["include"]]


def build_one(name):
    spec = EXTS[name]
    os.makedirs(OUT, exist_ok=True)
    hv = _hash(spec)
    so = so_path(name)
    stamp = so + ".sha"
    if os.path.exists(so) and os.path.exists(stamp) and open(stamp).read() == hv:
        return dict(name=name, status="cached")
    objdir = os.path.join(OUT, "obj", name.replace(".", "__"))
    os.makedirs(objdir, exist_ok=True)
    incs = _includes() + ["-I" + os.path.join(REPO, d) for d in spec["inc"]]
    objs = []
    for k, s in enumerate(spec["src"] + [spec["gen"]]):
        p = os.path.join(REPO, s)
        if not os.path.exists(p):
            return dict(name=name, status="failed", log="missing source " + s)
        o = os.path.join(objdir, "%d_%s.o" % (k, os.path.basename(s)))
        is_c = s.endswith(".c")
        cc = ["gcc"] if is_c else ["g++", "--std=c++11"]
        cmd = cc + ["-c", "-fPIC", "-DNDEBUG", "-O2", "-fwrapv"] + spec["flags"] + spec.get("defs", []) + incs + [p, "-o", o]
        r = subprocess.run(cmd, capture_output=True, text=True)
        if r.returncode != 0:
            return dict(name=name, status="failed", log=r.stderr[-4000:])
        objs.append(o)
    tmp = so + ".tmp%d" % os.getpid()
    link = ["g++", "-shared", "-fopenmp"] + objs + ["-o", tmp]
    r = subprocess.run(link, capture_output=True, text=True)
    if r.returncode != 0:
        return dict(name=name, status="failed", log=r.stderr[-4000:])
    os.replace(tmp, so)
    with open(stamp, "w") as fh:
        fh.write(hv)
    return dict(name=name, status="built")


_MARK = re.compile(r'/\* "([^"]+\.(?:pyx|pxi))":(\d+)\n(.*?)\*/', re.S)


def pyx_drift(name):
    """Return a list of (file, line, generated_text, current_text) where the .pyx/.pxi
    differs from the copy Cython embedded into the generated C."""
    spec = EXTS[name]
    gen = os.path.join(REPO, spec["gen"])
    try:
        txt = open(gen, errors="replace").read()
    except OSError:
        return [(spec["gen"], 0, "<missing generated file>", "")]
    cur = {}
    for p in spec["pyx"]:
        try:
            cur[os.path.basename(p)] = open(os.path.join(REPO, p), errors="replace").read().split("\n")
        except OSError:
            cur[os.path.basename(p)] = None
    seen = set()
    out = []
    for m in _MARK.finditer(txt):
        fn, ln, body = os.path.basename(m.group(1)), int(m.group(2)), m.group(3)
        if (fn, ln) in seen or fn not in cur:
            continue
        seen.add((fn, ln))
        marked = None
        for bl in body.split("\n"):
            if bl.rstrip().endswith("# <<<<<<<<<<<<<<"):
                marked = bl.rstrip()[: -len("# <<<<<<<<<<<<<<")]
                marked = marked.lstrip(" *").rstrip()
        if marked is None:
            continue
        lines = cur[fn]
        now = lines[ln - 1].strip() if lines is not None and ln - 1 < len(lines) else "<missing>"
        if now != marked.strip():
            out.append((fn, ln, marked.strip(), now))
    return out


def build_all(names=None, jobs=8):
    names = names or list(EXTS)
    with ThreadPoolExecutor(jobs) as ex:
        res = list(ex.map(build_one, names))
    return res


if __name__ == "__main__":
    args = [a for a in sys.argv[1:] if not a.startswith("--")]
    res = build_all(args or None, jobs=int(os.environ.get("MDV_JOBS", "10")))
    drift = {n: pyx_drift(n)[:5] for n in (args or EXTS)}
    print(json.dumps(dict(results=res, drift={k: v for k, v in drift.items() if v}), indent=1))
    sys.exit(1 if any(r["status"] == "failed" for r in res) else 0)
