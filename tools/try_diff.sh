#!/bin/bash
# try_diff.sh <patch.diff> <Cxx> [tier]: fresh worktree of /repo HEAD + the patch, checked from the scratch copy /tmp/vmut (MDV_REPO)
p="$(readlink -f "$1")"; c="$2"; tier="${3:-quick}"; wt=/tmp/wtm_$$
bash /verif/tools/mk_worktree.sh "$wt" >/dev/null 2>&1
git -C "$wt" apply "$p" || { echo "patch does not apply"; git -C /repo worktree remove --force "$wt"; exit 3; }
rsync -a --delete --exclude evidence/replay /verif/ /tmp/vmut_$$/
cd /tmp/vmut_$$ && MDV_REPO="$wt" ./check "$c" --tier "$tier" 2>&1 | grep -v conda | cut -c1-${COLS_OUT:-400} | grep -v "^KNOWN" | tail -${LINES_OUT:-6}
echo "exit=${PIPESTATUS[0]}"
git -C /repo worktree remove --force "$wt"; rm -rf /tmp/vmut_$$
