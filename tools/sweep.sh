#!/bin/bash
# sweep.sh <tier> <seed>... : run every check of MANIFEST.json at the given tier for each seed (parallel, 5 at a time per seed);
# prints one line per run and a summary of anything that is not a plain pass.  Used to look for false alarms on the clean tree.
cd "$(dirname "$0")/.."
tier="$1"; shift
[ -x lean/.lake/build/bin/driver ] || ./tools/setup.sh | tail -1
mkdir -p .build/sweep
for seed in "$@"; do
  for i in 01 02 03 04 05 06 07 08 09 10 11 12 13 14 15 16 17 18 19 20; do
    echo "C$i"
  done | xargs -P ${SWEEP_JOBS:-5} -I{} bash -c "VERIF_SEED=$seed timeout 7200 ./check {} --tier $tier > .build/sweep/{}.$tier.$seed.log 2>&1; echo \"{} tier=$tier seed=$seed exit=\$?\""
done
echo "== not plain passes =="
grep -l "VIOLATION\|INFRASTRUCTURE\|Traceback" .build/sweep/*.$tier.*.log 2>/dev/null
grep -h "^VIOLATION" .build/sweep/*.$tier.*.log 2>/dev/null | cut -c1-300
echo "== done =="
