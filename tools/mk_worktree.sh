#!/bin/bash
# mk_worktree.sh <dir>: scratch git worktree of /repo HEAD with the (git-ignored) build artefacts copied in
set -e
d="$1"
git -C /repo worktree add --detach "$d" HEAD >/dev/null 2>&1
cd /repo
git ls-files --others --ignored --exclude-standard | grep -v __pycache__ | grep -v egg-info | grep -v '^\.' | while read f; do
  mkdir -p "$d/$(dirname "$f")"; cp -p "$f" "$d/$f"
done
mkdir -p /tmp/mut_tools; cp /verif/tools/rebuild_ext.py /verif/tools/rebuild_inplace.py /tmp/mut_tools/
echo "$d ready"
